"""Baton scheduler: real threads, but exactly one holds the baton and runs; the others are parked.

Every intercepted operation (shared-dict call, file-system primitive) is a yield point at which the
scheduler - through a Chooser - decides who runs next.  The choice of who runs is never the OS's.
"""
import threading


class TaskDied(BaseException):
    pass


class BatonScheduler:
    def __init__(self, chooser, max_steps=100000):
        self.chooser = chooser
        self.tasks = {}
        self.order = []
        self.main_sem = threading.Semaphore(0)
        self.current = None
        self.steps = 0
        self.max_steps = max_steps
        self.trace = []
        self.abort = False
        self.kill_at = {}  # task name -> number of yield points after which the task's process dies (kill -9)
        self.yields = {}
        self.killed = []

    def spawn(self, name, fn):
        st = dict(sem=threading.Semaphore(0), done=False, exc=None, result=None, started=False)

        def body():
            st["sem"].acquire()
            try:
                if not self.abort:
                    st["result"] = fn()
            except BaseException as e:  # noqa - includes simulated crashes
                st["exc"] = e
            st["done"] = True
            self.main_sem.release()

        st["thread"] = threading.Thread(target=body, name=f"baton-{name}", daemon=True)
        self.tasks[name] = st
        self.order.append(name)
        st["thread"].start()

    def yield_point(self, label=None):
        """called by the running task at an intercepted operation"""
        name = self.current
        if name is None or threading.current_thread() is not self.tasks[name]["thread"]:
            return  # not inside a scheduled task (e.g. harness set-up code)
        st = self.tasks[name]
        self.yields[name] = self.yields.get(name, 0) + 1
        if name in self.kill_at and self.yields[name] > self.kill_at[name]:
            self.killed.append(name)
            del self.kill_at[name]
            raise TaskDied()  # the process is gone: nothing of its current operation happens after this point
        self.main_sem.release()
        st["sem"].acquire()
        if self.abort:
            raise TaskDied()

    def run(self, on_step=None):
        """run all tasks to completion under the chooser; returns when every task is done"""
        while True:
            runnable = [n for n in self.order if not self.tasks[n]["done"]]
            if not runnable:
                break
            self.steps += 1
            if self.steps > self.max_steps:
                self.abort = True
            pick = self.chooser.choose(runnable)
            self.trace.append(pick)
            self.current = pick
            self.tasks[pick]["sem"].release()
            self.main_sem.acquire()
            self.current = None
            if on_step is not None:
                on_step(pick)
        for st in self.tasks.values():
            st["thread"].join(timeout=5)
        return {n: (st["result"], st["exc"]) for n, st in self.tasks.items()}

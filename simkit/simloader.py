"""In-process stub of torch.utils.data.DataLoader's multi-worker protocol.

What is simulated (torch 2.x semantics, validated against the real DataLoader
by `validate_against_real`):
  * one base seed per iterator, drawn from `generator` (or the main process's
    global torch RNG) -- also for num_workers=0;
  * K workers, each a SimProcess holding a *pickled copy* of (dataset,
    collate_fn, worker_init_fn), seeded with seed=base+id exactly like
    torch.utils.data._utils.worker._worker_loop, with its own WorkerInfo;
  * strict round-robin assignment of batches to workers, prefetch window of
    prefetch_factor*K outstanding batches, FIFO inside a worker, in-order delivery;
  * fetch through torch's real _MapDatasetFetcher (so __getitems__ handling,
    collate placement etc. are torch's own code).
What the simulator decides (through a Chooser): which worker with pending work
runs next, and whether the main process takes a ready batch now or lets
workers run ahead first.
"""
import itertools
import random

import torch
from torch.utils.data import BatchSampler, RandomSampler, SequentialSampler, default_collate
from torch.utils.data._utils import worker as tw
from torch.utils.data._utils.fetch import _MapDatasetFetcher
import numpy as np

from .simproc import SimProcess, pickle_copy


from .chooser import Chooser  # noqa: F401


def spawn_copy(obj):
    """what a worker started with the spawn / forkserver start method receives: a pickled copy in which every torch tensor
    SHARES its memory with the parent's tensor (torch's ForkingPickler reductions move tensor storages into shared memory and
    hand every child a mapping of the same segment); numpy arrays and everything else are private copies"""
    import io
    import pickle
    table = []

    class P(pickle.Pickler):
        def persistent_id(self, o):
            if type(o) is torch.Tensor and o.device.type == "cpu" and not o.requires_grad:
                table.append(o)
                return len(table) - 1
            return None

    class U(pickle.Unpickler):
        def persistent_load(self, pid):
            return table[pid].detach()  # a new tensor object over the same storage

    buf = io.BytesIO()
    P(buf, protocol=pickle.HIGHEST_PROTOCOL).dump(obj)
    buf.seek(0)
    return U(buf).load(), len(table)


class Preempted(BaseException):
    pass


class BatchFailure:
    """what the consumer gets for a batch whose fetch raised in the worker when the loader is told to deliver errors: torch's
    DataLoader re-raises the worker's exception for THAT batch and the iterator stays usable - a training loop that catches the
    error and carries on receives the following batches from the same workers"""

    def __init__(self, exc):
        self.exc = exc


class _WorkerTask:
    """one batch being fetched by one worker, in a thread of its own that only runs while it holds the baton; library
    function calls are pre-emption points (sys.settrace 'call' events of frames below the repository), the loader's
    pre-emption stream decides at each of them whether the worker loses the CPU"""

    def __init__(self, loader_cls, worker, idxs, probe, repo_prefix):
        import threading
        self.worker = worker
        self.go = threading.Semaphore(0)
        self.back = threading.Semaphore(0)
        self.done = False
        self.result = None
        self.exc = None
        self.switches = 0
        rng = loader_cls._preempt_rng
        rate = loader_cls.preempt["rate"]

        def tracer(frame, event, arg):
            if event == "call" and frame.f_code.co_filename.startswith(repo_prefix) and rng.random() < rate:
                self.switches += 1
                self._cm.__exit__(None, None, None)
                self.back.release()
                self.go.acquire()
                self._cm = worker.proc.on_cpu()
                self._cm.__enter__()
            return None

        def body():
            import sys
            self.go.acquire()
            self._cm = worker.proc.on_cpu()
            self._cm.__enter__()
            sys.settrace(tracer)
            try:
                self.result = worker.fetcher.fetch(idxs)
                sys.settrace(None)
                if probe is not None:
                    probe(worker)
            except BaseException as e:  # noqa
                sys.settrace(None)
                self.exc = e
            finally:
                sys.settrace(None)
                self._cm.__exit__(None, None, None)
                self.done = True
                self.back.release()

        self.thread = threading.Thread(target=body, name=f"simworker-{worker.wid}", daemon=True)
        self.thread.start()

    def step(self):
        """run until the next pre-emption or completion; True when the batch is finished"""
        self.go.release()
        self.back.acquire()
        if self.done:
            self.thread.join(timeout=10)
        return self.done


class SimWorker:
    def __init__(self, loader, wid, base_seed, amb_seed):
        self.wid = wid
        self.seed = base_seed + wid
        if getattr(type(loader), "start_method", "fork") == "spawn":
            (self.dataset, self.collate_fn, init_fn), self.shared_tensors = spawn_copy((loader.dataset, loader.collate_fn, loader.init_fn))
        else:
            self.dataset, self.collate_fn, init_fn = pickle_copy((loader.dataset, loader.collate_fn, loader.init_fn))
        wi = tw.WorkerInfo(id=wid, num_workers=loader.K, seed=self.seed, dataset=self.dataset)
        self.proc = SimProcess(f"worker{wid}", amb_seed, worker_info=wi)
        with self.proc.on_cpu():
            # _worker_loop: seed the three global RNGs of the worker process
            random.seed(self.seed)
            torch.manual_seed(self.seed)
            np.random.seed(tw._generate_state(base_seed, wid))
            if loader.pre_init_probe is not None:
                loader.pre_init_probe(self)
            if init_fn is not None:
                init_fn(wid)
            self.fetcher = _MapDatasetFetcher(self.dataset, True, self.collate_fn, False)
            if loader.post_init_probe is not None:
                loader.post_init_probe(self)

    def run(self, idxs, probe=None):
        with self.proc.on_cpu():
            out = self.fetcher.fetch(idxs)
            if probe is not None:
                probe(self)
            return out


class SimDataLoader:
    """drop-in for the DataLoader symbol; class attributes carry the simulation controls"""
    chooser = None  # Chooser; must be set by the harness
    trace = None  # list to which (worker, batch_index) execution events are appended
    pre_init_probe = None
    post_init_probe = None
    post_batch_probe = None
    amb_seed = 0
    created = None  # list of created loaders (for inspection)
    start_method = "fork"  # "spawn": tensors reachable from the dataset are shared between the parent and all workers
    preempt = None  # dict(seed=..., rate=...): workers lose the CPU inside a batch, at library function calls
    switches = 0
    deliver_errors = False  # True: a failed batch is delivered as a BatchFailure object and the iteration goes on

    def __init__(self, dataset, batch_size=1, shuffle=False, sampler=None, batch_sampler=None, num_workers=0,
                 collate_fn=None, pin_memory=False, drop_last=False, worker_init_fn=None, prefetch_factor=None,
                 generator=None, persistent_workers=False, in_order=True, **kw):
        assert not persistent_workers, "persistent workers are not simulated"
        self.dataset = dataset
        self.K = num_workers
        self.collate_fn = collate_fn or default_collate
        self.init_fn = worker_init_fn
        self.prefetch = prefetch_factor or 2
        self.generator = generator
        self.in_order = bool(in_order)  # torch >= 2.6: False = batches are handed out as workers finish them
        if batch_sampler is None:
            if sampler is None:
                sampler = RandomSampler(dataset, generator=generator) if shuffle else SequentialSampler(dataset)
            batch_sampler = BatchSampler(sampler, batch_size, drop_last)
        self.batch_sampler = batch_sampler
        self.workers = []
        self.iterations = 0
        if type(self).created is not None:
            type(self).created.append(self)

    def __iter__(self):
        cls = type(self)
        chooser = cls.chooser or Chooser(seed=0)
        trace = cls.trace
        it = iter(self.batch_sampler)
        base_seed = torch.empty((), dtype=torch.int64).random_(generator=self.generator).item()
        self.iterations += 1
        self.base_seed = base_seed
        if self.K == 0:
            fetcher = _MapDatasetFetcher(self.dataset, True, self.collate_fn, False)
            for idxs in it:
                if trace is not None:
                    trace.append(["main", len(idxs)])
                if cls.deliver_errors:
                    try:
                        res = fetcher.fetch(idxs)
                    except Exception as e:  # noqa
                        res = BatchFailure(e)
                    yield res
                else:
                    yield fetcher.fetch(idxs)
            return
        self.workers = [SimWorker(self, w, base_seed, (cls.amb_seed * 1000003 + self.iterations * 1009 + w) & 0x7FFFFFFF)
                        for w in range(self.K)]
        queues = [[] for _ in range(self.K)]
        done = {}
        send = 0
        rcvd = 0
        exhausted = False
        cyc = itertools.cycle(range(self.K))

        def put():
            nonlocal send, exhausted
            if exhausted:
                return
            try:
                idxs = next(it)
            except StopIteration:
                exhausted = True
                return
            queues[next(cyc)].append((send, idxs))
            send += 1

        for _ in range(self.prefetch * self.K):
            put()
        if cls.preempt:
            import os
            cls._preempt_rng = random.Random(f"preempt/{cls.preempt['seed']}/{self.iterations}")
            repo_prefix = os.path.realpath(os.environ.get("VERIF_REPO", "/repo")) + os.sep
            running = {}  # worker -> (batch index, task)
            try:
                while rcvd < send:
                    while True:
                        options = [w for w in range(self.K) if queues[w] or w in running]
                        if (rcvd in done) if self.in_order else bool(done):
                            options = ["deliver"] + options
                        pick = chooser.choose(options)
                        if pick == "deliver":
                            break
                        if pick not in running:
                            bi, idxs = queues[pick].pop(0)
                            running[pick] = (bi, _WorkerTask(cls, self.workers[pick], idxs, cls.post_batch_probe, repo_prefix))
                            if trace is not None:
                                trace.append([pick, bi])
                        elif trace is not None:
                            trace.append([pick, running[pick][0], "resume"])
                        bi, task = running[pick]
                        if task.step():
                            del running[pick]
                            cls.switches += task.switches
                            if task.exc is not None:
                                if cls.deliver_errors and isinstance(task.exc, Exception):
                                    done[bi] = BatchFailure(task.exc)
                                    continue
                                raise task.exc
                            done[bi] = task.result
                    out = done.pop(rcvd if self.in_order else next(iter(done)))  # dicts keep completion order
                    rcvd += 1
                    put()
                    yield out
            finally:
                # abandoned iteration / error: let suspended workers finish (nobody looks at their results)
                for w, (bi, task) in list(running.items()):
                    for _ in range(100000):
                        if task.step():
                            break
            return
        while rcvd < send:
            while True:
                options = [w for w in range(self.K) if queues[w]]
                if (rcvd in done) if self.in_order else bool(done):
                    options = ["deliver"] + options
                pick = chooser.choose(options)
                if pick == "deliver":
                    break
                bi, idxs = queues[pick].pop(0)
                if trace is not None:
                    trace.append([pick, bi])
                if cls.deliver_errors:
                    try:
                        done[bi] = self.workers[pick].run(idxs, cls.post_batch_probe)
                    except Exception as e:  # noqa
                        done[bi] = BatchFailure(e)
                else:
                    done[bi] = self.workers[pick].run(idxs, cls.post_batch_probe)
            out = done.pop(rcvd if self.in_order else next(iter(done)))  # dicts keep completion order
            rcvd += 1
            put()
            yield out


def validate_against_real(make_dataset, batch_size, K, gen_seed, chooser_seed, with_init=True, collate=None):
    """run one epoch through the real multi-process DataLoader and through the stub; return #batches compared
    (raises AssertionError on the first difference).  Used for stub validation only."""
    from torch.utils.data import DataLoader
    from .deep import deep_diff
    ds = make_dataset()
    g = torch.Generator().manual_seed(gen_seed)
    kw = dict(batch_size=batch_size, num_workers=K, generator=g, collate_fn=collate)
    if with_init and K > 0:
        kw["worker_init_fn"] = ds.worker_init_fn
    real = list(DataLoader(ds, **kw))
    ds2 = make_dataset()
    g2 = torch.Generator().manual_seed(gen_seed)
    kw2 = dict(kw)
    kw2["generator"] = g2
    if "worker_init_fn" in kw2:
        kw2["worker_init_fn"] = ds2.worker_init_fn

    class L(SimDataLoader):
        chooser = Chooser(seed=chooser_seed)
        trace = []

    sim = list(L(ds2, **kw2))
    assert len(real) == len(sim), (len(real), len(sim))
    for i, (r, s) in enumerate(zip(real, sim)):
        d = deep_diff(r, s)
        assert d is None, f"batch {i}: {d}"
    return len(real)


def stub_validation(n_configs, seed):
    """compare the stub with the real multi-process DataLoader on seeded configurations (stub validation only:
    never decides a property).  Returns a dict for the evidence file."""
    import random as _r
    from . import env
    env.import_kappadata()
    import kappadata.transforms as kdt
    from kappadata.wrappers import ModeWrapper, XTransformWrapper
    from props.simdata import TensorDataset
    rng = _r.Random(f"stubval/{seed}")
    compared = 0
    batches = 0
    failures = []
    for c in range(n_configs):
        K = rng.choice([1, 2, 3])
        bs = rng.randint(1, 4)
        n = rng.randint(bs, 12)
        gen_seed = rng.randint(0, 999)
        tseed = rng.choice([None, 3])
        amb = rng.randint(0, 999)

        def make(n=n, tseed=tseed, amb=amb):
            np.random.seed(amb)
            t = kdt.KDComposeTransform([kdt.KDAdditiveGaussianNoise(std=1.0), kdt.KDRandomHorizontalFlip(),
                                        kdt.KDRandomApply(p=0.5, transform=kdt.KDAdditiveUniformNoise())])
            return ModeWrapper(XTransformWrapper(TensorDataset(n), t, seed=tseed), mode="index x")

        try:
            batches += validate_against_real(make, bs, K, gen_seed, chooser_seed=rng.randint(0, 999))
            compared += 1
        except AssertionError as e:
            failures.append(dict(K=K, batch_size=bs, n=n, error=str(e)[:200]))
    return dict(configs_compared_with_real_multiprocess_DataLoader=compared, batches_compared=batches, mismatches=len(failures),
                examples=failures[:2])


def spawn_model_validation(timeout=600):
    """run simkit/spawn_probe.py in a process of its own (the spawn start method re-imports the main module)"""
    import json
    import os
    import subprocess
    import sys
    script = os.path.join(os.path.dirname(os.path.abspath(__file__)), "spawn_probe.py")
    p = subprocess.run([sys.executable, "-B", script], capture_output=True, text=True, timeout=timeout)
    for line in p.stdout.splitlines():
        if line.startswith("SPAWN-PROBE "):
            res = json.loads(line[len("SPAWN-PROBE "):])
            assert res["agree"], f"spawn/fork sharing model differs from the real DataLoader: {res}"
            return res
    raise AssertionError("spawn probe produced no result: " + (p.stdout + p.stderr)[-400:])


from contextlib import contextmanager


@contextmanager
def dataloader_seam(loader_cls, *modules):
    """rebind every place the library could take `DataLoader` from: the given modules' `DataLoader` symbol (the seam the
    code has today) and torch.utils.data(.dataloader).DataLoader (so a refactoring to attribute access stays simulated)"""
    import torch.utils.data as tud
    import torch.utils.data.dataloader as tudl
    saved = []
    for m in list(modules) + [tud, tudl]:
        if hasattr(m, "DataLoader"):
            saved.append((m, m.DataLoader))
            m.DataLoader = loader_cls
    try:
        yield
    finally:
        for m, v in saved:
            m.DataLoader = v

"""Process environment discipline: which interpreter, which repo, which env vars.

Everything that could make two executions of one plan differ for reasons other
than the plan is pinned here: hash seed, BLAS/OMP threads, torch threads, the
source tree KappaData is imported from.
"""
import os
import sys

VERIF_DIR = os.path.dirname(os.path.dirname(os.path.abspath(__file__)))
PYTHON = "/venv/bin/python"
GUARD = "KAPPADATA_VERIF"

PINNED_ENV = {
    "PYTHONHASHSEED": "0",
    "OMP_NUM_THREADS": "1",
    "MKL_NUM_THREADS": "1",
    "OPENBLAS_NUM_THREADS": "1",
    "NUMEXPR_NUM_THREADS": "1",
    "PYTHONDONTWRITEBYTECODE": "1",
    "CUDA_VISIBLE_DEVICES": "",
    "PYTHONWARNINGS": "ignore",
    GUARD: "1",
}


def repo_dir():
    return os.path.abspath(os.environ.get("VERIF_REPO", "/repo"))


def child_env(**extra):
    env = dict(os.environ)
    env.update(PINNED_ENV)
    env.update({k: str(v) for k, v in extra.items()})
    return env


def ensure_pinned():
    """re-exec once so that the pinned variables are in force from interpreter start"""
    need = any(os.environ.get(k) != v for k, v in PINNED_ENV.items() if k != "PYTHONHASHSEED")
    if os.environ.get("PYTHONHASHSEED") is None:
        need = True
    if need and os.environ.get("_KD_VERIF_REEXEC") != "1":
        env = dict(os.environ)
        for k, v in PINNED_ENV.items():
            if k == "PYTHONHASHSEED" and "PYTHONHASHSEED" in os.environ:
                continue  # the determinism self-test sets another hash seed on purpose
            env[k] = v
        env["_KD_VERIF_REEXEC"] = "1"
        os.execve(sys.executable, [sys.executable, "-B"] + sys.argv, env)


_imported = False


def import_kappadata():
    """import KappaData from VERIF_REPO's *current working tree* (never a cached/installed copy)"""
    global _imported
    repo = repo_dir()
    if not _imported:
        if sys.path[0] != repo:
            sys.path.insert(0, repo)
        vendor = os.path.join(VERIF_DIR, "vendor")
        if vendor not in sys.path:
            sys.path.insert(1, vendor)
        import torch
        torch.set_num_threads(1)
        # the seams that replace process-wide facilities (thread pools, OS entropy, ...) must be in place BEFORE the library
        # is imported: `from concurrent.futures import ThreadPoolExecutor` binds the class at import time
        from . import simproc  # noqa: F401
        import kappadata
        got = os.path.realpath(kappadata.__file__)
        if not got.startswith(os.path.realpath(repo) + os.sep):
            raise RuntimeError(f"kappadata imported from {got}, expected below {repo}")
        _imported = True
    import kappadata
    return kappadata

"""entry point behind /verif/check"""
import argparse
import faulthandler
import importlib
import os
import sys

HERE = os.path.dirname(os.path.abspath(__file__))
VERIF = os.path.dirname(HERE)
if VERIF not in sys.path:
    sys.path.insert(0, VERIF)

from simkit import env  # noqa: E402

PROPS = ["C01", "C04", "C05", "C06", "C07", "C08", "C09", "C12", "C13", "C15", "C19", "C20"]


def load_spec(prop):
    mod = importlib.import_module(f"props.{prop.lower()}")
    return mod.SPEC


def main():
    ap = argparse.ArgumentParser()
    ap.add_argument("target")
    ap.add_argument("--tier", default=os.environ.get("VERIF_TIER") or "quick", choices=["quick", "thorough"])
    ap.add_argument("--replay")
    ap.add_argument("--_shard", type=int)
    ap.add_argument("--_nshards", type=int)
    ap.add_argument("--_out")
    ap.add_argument("--_runs", type=int)
    ap.add_argument("--_budget", type=float)
    ap.add_argument("--_wallcap", type=float)
    ap.add_argument("--_only")
    ap.add_argument("rest", nargs="*")
    args = ap.parse_args()
    env.ensure_pinned()
    faulthandler.enable()
    verif_seed = int(os.environ.get("VERIF_SEED") or 0)
    from simkit import core

    if args.target == "setup":
        from simkit import selftest
        sys.exit(selftest.setup())
    if args.target == "selftest-determinism":
        from simkit import selftest
        sys.exit(selftest.determinism(args.rest or PROPS, args.tier, verif_seed))
    if args.target == "soak":
        from simkit import selftest
        sys.exit(selftest.soak(args.rest, args.tier, verif_seed, PROPS))
    if args.target == "seeded":
        from simkit import mutants
        sys.exit(mutants.seeded(args.rest, args.tier))
    if args.target == "refactors":
        from simkit import mutants
        sys.exit(mutants.main(args.rest, args.tier, folder="refactors", expect="HELD"))
    if args.target == "mutants":
        from simkit import mutants
        sys.exit(mutants.main(args.rest, args.tier))

    prop = args.target.upper()
    if prop not in PROPS:
        print(f"unknown target {args.target}; properties: {PROPS}")
        sys.exit(core.EXIT_HARNESS)
    env.import_kappadata() if (args._shard is not None or args.replay) else None
    spec = load_spec(prop)
    if args._shard is not None:
        faulthandler.dump_traceback_later(args._wallcap, exit=True)
        only = [int(x) for x in args._only.split(",")] if args._only else None
        core.run_shard(spec, args.tier, verif_seed, args._shard, args._nshards, args._out, args._runs, args._budget, only)
        faulthandler.cancel_dump_traceback_later()
        sys.stdout.flush()
        os._exit(0)  # do not wait for stray daemon threads
    if args.replay:
        try:
            code = core.replay(spec, args.replay)
        except core.HarnessError as e:
            print("HARNESS-ERROR:", e)
            code = core.EXIT_HARNESS
        sys.stdout.flush()
        os._exit(code)
    try:
        code = core.run_check(spec, args.tier, verif_seed)
    except core.HarnessError as e:
        print("HARNESS-ERROR:", e)
        code = core.EXIT_HARNESS
    try:  # nothing we started may outlive the check (os._exit skips multiprocessing's own clean-up)
        import multiprocessing
        for ch in multiprocessing.active_children():
            ch.terminate()
    except Exception:
        pass
    sys.stdout.flush()
    os._exit(code)


if __name__ == "__main__":
    main()

"""Simulated processes: private object copies, private ambient RNG triple, private worker_info.

Exactly one SimProcess is "on CPU" at any instant; entering it installs its
ambient (random / numpy / torch) global RNG states and its torch worker_info,
leaving it saves them and restores the caller's.
"""
import pickle
import random
import sys
from contextlib import contextmanager

import numpy as np
import torch
from torch.utils.data._utils import worker as tw


# ---- OS entropy seam -------------------------------------------------------------------------------------------------
# numpy's SeedSequence obtains OS entropy through the module attribute numpy.random.bit_generator.randbits.  Under
# simulation every process incarnation gets its own deterministic entropy stream, so `default_rng()` without a seed is
# repeatable run for run (replay works) and still differs between two incarnations of "the same" worker (as it would
# with real OS entropy).
import numpy.random.bit_generator as _bg

_ENTROPY = {"default": random.Random("entropy/default"), "current": None, "incarnations": 0}


def _sim_randbits(n):
    src = _ENTROPY["current"] or _ENTROPY["default"]
    return src.getrandbits(n)


_bg.randbits = _sim_randbits


def reset_entropy():
    clear_library_caches()
    _ENTROPY["default"] = random.Random("entropy/default")
    _ENTROPY["current"] = None
    _ENTROPY["incarnations"] = 0


# ---- process-global memo caches (functools.lru_cache & co. in the library under test) ----------------------------------------
# In production every process has its own copy of such a cache; simulated processes share one interpreter.  The
# simulator therefore (a) clears them at the start of every plan (replay determinism) and (b) lets an engine clear them
# whenever another simulated process gets the CPU, so that a cache never carries a value from one "process" to another.
_CACHED = {"n_modules": -1, "fns": []}


def _library_caches(prefix="kappadata"):
    if len(sys.modules) == _CACHED["n_modules"]:
        return _CACHED["fns"]
    mods = [m for n, m in list(sys.modules.items()) if (n == prefix or n.startswith(prefix + ".")) and m is not None]
    if True:
        fns = []
        for m in mods:
            for v in list(vars(m).values()):
                if callable(getattr(v, "cache_clear", None)):
                    fns.append(v)
        _CACHED["n_modules"] = len(sys.modules)
        _CACHED["fns"] = fns
    return _CACHED["fns"]


def clear_library_caches():
    for f in _library_caches():
        try:
            f.cache_clear()
        except Exception:
            pass


# ---- hash randomisation seam ----------------------------------------------------------------------------------------------
# str/bytes hashes are salted per interpreter (PYTHONHASHSEED): two real processes disagree on hash("abc").  Code that
# derives anything from the builtin hash() therefore behaves differently in every rank / worker.  Under simulation the
# builtin name `hash` can be replaced per simulated process by a deterministic salted function (C-level hashing of
# dicts/sets is not affected).
import builtins as _builtins
import hashlib as _hashlib

_REAL_HASH = _builtins.hash


def _stable(o):
    if isinstance(o, str):
        return b"s" + o.encode()
    if isinstance(o, bytes):
        return b"b" + o
    if isinstance(o, (tuple, frozenset)):
        parts = [_stable(x) for x in (sorted(o, key=repr) if isinstance(o, frozenset) else o)]
        return None if any(p is None for p in parts) else b"t(" + b",".join(parts) + b")"
    if isinstance(o, (int, float, bool, type(None))):
        return repr(o).encode()
    return None


class salted_hash:
    """context: builtins.hash is salted like a fresh interpreter's would be, deterministically from `salt`"""

    def __init__(self, salt):
        self.salt = str(salt).encode()

    def __enter__(self):
        salt = self.salt

        def sim_hash(o):
            if isinstance(o, (int, float, bool)) or o is None:
                return _REAL_HASH(o)  # numeric hashes are not randomised
            st = _stable(o)
            if st is None:
                return _REAL_HASH(o)
            return int.from_bytes(_hashlib.sha256(salt + b"/" + st).digest()[:8], "big", signed=True)

        self.saved = _builtins.hash
        _builtins.hash = sim_hash
        return self

    def __exit__(self, *a):
        _builtins.hash = self.saved


def save_amb():
    return (random.getstate(), np.random.get_state(), torch.get_rng_state())


def load_amb(s):
    random.setstate(s[0])
    np.random.set_state(s[1])
    torch.set_rng_state(s[2])


def amb_equal(a, b):
    return (a[0] == b[0] and a[1][0] == b[1][0] and np.array_equal(a[1][1], b[1][1]) and a[1][2:] == b[1][2:]
            and torch.equal(a[2], b[2]))


def amb_from_seed(seed):
    """a fresh ambient triple that is a function of `seed` only (does not disturb the caller's)"""
    outer = save_amb()
    try:
        random.seed(seed)
        np.random.seed(seed % (2 ** 32))
        torch.manual_seed(seed)
        return save_amb()
    finally:
        load_amb(outer)


def pickle_copy(obj):
    return pickle.loads(pickle.dumps(obj))


class SimProcess:
    def __init__(self, name, amb_seed, worker_info=None):
        self.name = name
        self.amb = amb_from_seed(amb_seed)
        _ENTROPY["incarnations"] += 1
        self.entropy = random.Random(f"entropy/{name}/{amb_seed}/{_ENTROPY['incarnations']}")
        self.worker_info = worker_info
        self.objects = {}
        self._depth = 0

    @contextmanager
    def on_cpu(self):
        assert self._depth == 0, "SimProcess re-entered"
        self._depth = 1
        outer = save_amb()
        outer_wi = tw._worker_info
        outer_entropy = _ENTROPY["current"]
        load_amb(self.amb)
        tw._worker_info = self.worker_info
        _ENTROPY["current"] = self.entropy
        try:
            yield self
        finally:
            self.amb = save_amb()
            load_amb(outer)
            tw._worker_info = outer_wi
            _ENTROPY["current"] = outer_entropy
            self._depth = 0

    def clobber(self, which, seed):
        """foreign code in this process reseeds / advances one of the global RNGs (fault F8)"""
        with self.on_cpu():
            if which == "py":
                random.seed(seed)
            elif which == "np":
                np.random.seed(seed % (2 ** 32))
            elif which == "torch":
                torch.manual_seed(seed)
            elif which == "advance":
                random.random()
                np.random.rand(3)
                torch.rand(3)
            else:
                raise ValueError(which)

    def adopt(self, key, obj, via_pickle=True):
        self.objects[key] = pickle_copy(obj) if via_pickle else obj
        return self.objects[key]

"""Simulated processes: private object copies, private ambient RNG triple, private worker_info.

Exactly one SimProcess is "on CPU" at any instant; entering it installs its
ambient (random / numpy / torch) global RNG states and its torch worker_info,
leaving it saves them and restores the caller's.
"""
import pickle
import random
import sys
from contextlib import contextmanager

import numpy as np
import torch
from torch.utils.data._utils import worker as tw


# ---- OS entropy seam -------------------------------------------------------------------------------------------------
# numpy's SeedSequence obtains OS entropy through the module attribute numpy.random.bit_generator.randbits.  Under
# simulation every process incarnation gets its own deterministic entropy stream, so `default_rng()` without a seed is
# repeatable run for run (replay works) and still differs between two incarnations of "the same" worker (as it would
# with real OS entropy).
import numpy.random.bit_generator as _bg

_ENTROPY = {"default": random.Random("entropy/default"), "current": None, "incarnations": 0}


def _sim_randbits(n):
    src = _ENTROPY["current"] or _ENTROPY["default"]
    return src.getrandbits(n)


_bg.randbits = _sim_randbits


def reset_entropy():
    clear_library_caches()
    reset_library_state()
    reset_addresses()
    _SCHED["default"] = random.Random("sched/default")
    _SCHED["current"] = None
    SimThreadPool.counter.update(pools=0, tasks=0, reordered=0)
    _ENTROPY["default"] = random.Random("entropy/default")
    _ENTROPY["current"] = None
    _ENTROPY["incarnations"] = 0


# ---- process-global memo caches (functools.lru_cache & co. in the library under test) ----------------------------------------
# In production every process has its own copy of such a cache; simulated processes share one interpreter.  The
# simulator therefore (a) clears them at the start of every plan (replay determinism) and (b) lets an engine clear them
# whenever another simulated process gets the CPU, so that a cache never carries a value from one "process" to another.
_CACHED = {"n_modules": -1, "fns": []}


def _library_caches(prefix="kappadata"):
    if len(sys.modules) == _CACHED["n_modules"]:
        return _CACHED["fns"]
    mods = [m for n, m in list(sys.modules.items()) if (n == prefix or n.startswith(prefix + ".")) and m is not None]
    if True:
        fns = []
        for m in mods:
            for v in list(vars(m).values()):
                if callable(getattr(v, "cache_clear", None)):
                    fns.append(v)
        _CACHED["n_modules"] = len(sys.modules)
        _CACHED["fns"] = fns
    return _CACHED["fns"]


def clear_library_caches():
    for f in _library_caches():
        try:
            f.cache_clear()
        except Exception:
            pass


# ---- module-level / class-level mutable state of the library ---------------------------------------------------------------
# Every plan stands for a freshly started process.  Plain containers (dict / list / set) bound to module globals or class
# attributes of the library are therefore put back to the content they had when the simulator first saw them (import
# time) at the start of every plan: state the library keeps across independent uses must be provoked INSIDE a plan
# ("earlier use" operations), where it replays, not inherited from whatever plan happened to run before in the same shard.
_STATE = {"n_modules": -1, "seen": {}, "order": []}


def _import_all(prefix):
    """import every submodule of the library once, so that its module-level state is first seen in its import-time condition"""
    import importlib
    import pkgutil
    pkg = sys.modules.get(prefix)
    if pkg is None:
        from . import env
        pkg = env.import_kappadata()  # the snapshot must be taken before the first plan runs, whoever calls first
    if not hasattr(pkg, "__path__"):
        return
    import os
    names = set()
    try:
        names.update(info.name for info in pkgutil.walk_packages(pkg.__path__, prefix + "."))
    except Exception:
        pass
    for root in list(pkg.__path__):  # folders without __init__.py (namespace packages) are not walked by pkgutil
        for dp, dns, fns in os.walk(root):
            dns[:] = sorted(d for d in dns if not d.startswith((".", "__")))
            rel = os.path.relpath(dp, root)
            base = prefix if rel == "." else prefix + "." + rel.replace(os.sep, ".")
            for fn in sorted(fns):
                if fn.endswith(".py") and fn != "__init__.py" and fn != "__main__.py":
                    names.add(base + "." + fn[:-3])
    for name in sorted(names):
        if name not in sys.modules:
            try:
                importlib.import_module(name)
            except BaseException:  # optional dependencies, scripts that exit ...
                pass


def _scan_library_state(prefix="kappadata"):
    if _STATE["n_modules"] == -1:
        _import_all(prefix)
    if len(sys.modules) == _STATE["n_modules"]:
        return
    _STATE["n_modules"] = len(sys.modules)
    for name in sorted(n for n in sys.modules if n == prefix or n.startswith(prefix + ".")):
        m = sys.modules.get(name)
        if m is None:
            continue
        owners = [m] + [v for v in vars(m).values() if isinstance(v, type) and getattr(v, "__module__", None) == name]
        for o in owners:
            for attr, v in list(vars(o).items()):
                if attr.startswith("__") or type(v) not in (dict, list, set):
                    continue
                key = _REAL_ID(v) if "_REAL_ID" in globals() else id(v)
                if key not in _STATE["seen"]:
                    _STATE["seen"][key] = (v, type(v)(v))
                    _STATE["order"].append(key)


def reset_library_state():
    _scan_library_state()
    for key in _STATE["order"]:
        obj, snap = _STATE["seen"][key]
        try:
            if obj != snap:
                obj.clear()
                if isinstance(obj, list):
                    obj.extend(snap)
                else:
                    obj.update(snap)
        except Exception:
            pass


# ---- hash randomisation seam ----------------------------------------------------------------------------------------------
# str/bytes hashes are salted per interpreter (PYTHONHASHSEED): two real processes disagree on hash("abc").  Code that
# derives anything from the builtin hash() therefore behaves differently in every rank / worker.  Under simulation the
# builtin name `hash` can be replaced per simulated process by a deterministic salted function (C-level hashing of
# dicts/sets is not affected).
import builtins as _builtins
import hashlib as _hashlib

_REAL_HASH = _builtins.hash


def _stable(o):
    if isinstance(o, str):
        return b"s" + o.encode()
    if isinstance(o, bytes):
        return b"b" + o
    if isinstance(o, (tuple, frozenset)):
        parts = [_stable(x) for x in (sorted(o, key=repr) if isinstance(o, frozenset) else o)]
        return None if any(p is None for p in parts) else b"t(" + b",".join(parts) + b")"
    if isinstance(o, (int, float, bool, type(None))):
        return repr(o).encode()
    return None


class salted_hash:
    """context: builtins.hash is salted like a fresh interpreter's would be, deterministically from `salt`"""

    def __init__(self, salt):
        self.salt = str(salt).encode()

    def __enter__(self):
        salt = self.salt

        def sim_hash(o):
            # only explicit hash() calls made BY THE LIBRARY UNDER TEST are salted; everybody else's (enum members used as dict
            # keys, pathlib, the harness ...) must stay consistent with tables that were built at import time
            if not sys._getframe(1).f_globals.get("__name__", "").startswith("kappadata"):
                return _REAL_HASH(o)
            if isinstance(o, (int, float, bool)) or o is None:
                return _REAL_HASH(o)  # numeric hashes are not randomised
            st = _stable(o)
            if st is None:
                return _REAL_HASH(o)
            return int.from_bytes(_hashlib.sha256(salt + b"/" + st).digest()[:8], "big", signed=True)

        self.saved = _builtins.hash
        _builtins.hash = sim_hash
        return self

    def __exit__(self, *a):
        _builtins.hash = self.saved


# ---- memory-address seam ------------------------------------------------------------------------------------------------
# id(obj) is a memory address: whether a new object gets the address of one that died before is the allocator's decision.
# Library code that keys anything by id() therefore depends on a hidden nondeterministic input.  Under simulation explicit
# id() calls made by the library get simulated addresses that are reused ADVERSARIALLY: a new object receives the lowest
# address whose previous holder is dead.  Everybody else's id() (copy, pickle, the harness) is the real one.
import weakref as _weakref

_REAL_ID = _builtins.id
_ADDR = {"by_real": {}, "holders": {}, "next": 1, "calls": 0}
_ADDR_BASE = 0x7F0000000000


def reset_addresses():
    _ADDR["by_real"].clear()
    _ADDR["holders"].clear()
    _ADDR["next"] = 1
    _ADDR["calls"] = 0


def sim_id(o):
    if not sys._getframe(1).f_globals.get("__name__", "").startswith("kappadata"):
        return _REAL_ID(o)
    _ADDR["calls"] += 1
    real = _REAL_ID(o)
    ent = _ADDR["by_real"].get(real)
    if ent is not None and ent[1]() is o:
        return _ADDR_BASE + 16 * ent[0]
    try:
        ref = _weakref.ref(o)
    except TypeError:
        return real  # cannot be tracked (ints, tuples, ...): the real address
    slot = None
    for k in sorted(_ADDR["holders"]):
        if _ADDR["holders"][k]() is None:
            slot = k
            break
    if slot is None:
        slot = _ADDR["next"]
        _ADDR["next"] += 1
    _ADDR["holders"][slot] = ref
    _ADDR["by_real"][real] = (slot, ref)
    return _ADDR_BASE + 16 * slot


_builtins.id = sim_id


# ---- thread-pool seam -----------------------------------------------------------------------------------------------------
# If the library starts worker THREADS (concurrent.futures.ThreadPoolExecutor), their interleaving would be the OS's
# decision and nothing would replay.  Under simulation the executor class is replaced: submitted tasks run one at a
# time in an order drawn from the current simulated process's scheduling stream (task-level reordering - the
# coarsest interleaving a pool can produce, and the one that matters for shared generators / shared output folders).
# Results keep the semantics of the real class: map() yields in input order and raises a task's exception only when
# that result is consumed; submit() returns a future whose result()/exception() report the outcome.
import concurrent.futures as _cf
import concurrent.futures.thread as _cft

_SCHED = {"default": random.Random("sched/default"), "current": None}
_REAL_TPE = _cf.ThreadPoolExecutor


class _SimFuture:
    def __init__(self, fn, args, kwargs):
        self._call = (fn, args, kwargs)
        self._done = False
        self._result = None
        self._exc = None

    def _run(self):
        if self._done:
            return
        fn, a, k = self._call
        try:
            self._result = fn(*a, **k)
        except BaseException as e:  # noqa
            self._exc = e
        self._done = True

    def result(self, timeout=None):
        self._run()
        if self._exc is not None:
            raise self._exc
        return self._result

    def exception(self, timeout=None):
        self._run()
        return self._exc

    def done(self):
        return self._done

    def cancel(self):
        return False

    def add_done_callback(self, fn):
        self._run()
        fn(self)


class SimThreadPool:
    counter = {"pools": 0, "tasks": 0, "reordered": 0}

    def __init__(self, max_workers=None, *a, **kw):
        self.max_workers = max_workers
        self._pending = []
        SimThreadPool.counter["pools"] += 1

    def _rng(self):
        return _SCHED["current"] or _SCHED["default"]

    def submit(self, fn, *args, **kwargs):
        f = _SimFuture(fn, args, kwargs)
        self._pending.append(f)
        SimThreadPool.counter["tasks"] += 1
        return f

    def _drain(self):
        order = list(range(len(self._pending)))
        if (self.max_workers or 2) > 1:
            self._rng().shuffle(order)
        if order != sorted(order):
            SimThreadPool.counter["reordered"] += 1
        pend, self._pending = self._pending, []
        for i in order:
            pend[i]._run()

    def map(self, fn, *iterables, timeout=None, chunksize=1):
        futs = [self.submit(fn, *args) for args in zip(*iterables)]
        self._drain()  # like the real pool the work starts right away, whether or not anybody looks at the results

        def results():
            for f in futs:
                yield f.result()

        return results()

    def shutdown(self, wait=True, cancel_futures=False):
        self._drain()

    def __enter__(self):
        return self

    def __exit__(self, *a):
        self.shutdown()
        return False


def install_thread_pool_seam():
    _cf.ThreadPoolExecutor = SimThreadPool
    _cft.ThreadPoolExecutor = SimThreadPool


install_thread_pool_seam()

# ---- pid seam: every simulated process has its own os.getpid() ---------------------------------------------------------------
import os as _os

_REAL_GETPID = _os.getpid
_PID = {"current": None}


def _sim_getpid():
    return _PID["current"] if _PID["current"] is not None else _REAL_GETPID()


def save_amb():
    return (random.getstate(), np.random.get_state(), torch.get_rng_state())


def load_amb(s):
    random.setstate(s[0])
    np.random.set_state(s[1])
    torch.set_rng_state(s[2])


def amb_equal(a, b):
    return (a[0] == b[0] and a[1][0] == b[1][0] and np.array_equal(a[1][1], b[1][1]) and a[1][2:] == b[1][2:]
            and torch.equal(a[2], b[2]))


def amb_from_seed(seed):
    """a fresh ambient triple that is a function of `seed` only (does not disturb the caller's)"""
    outer = save_amb()
    try:
        random.seed(seed)
        np.random.seed(seed % (2 ** 32))
        torch.manual_seed(seed)
        return save_amb()
    finally:
        load_amb(outer)


def pickle_copy(obj):
    return pickle.loads(pickle.dumps(obj))


class SimProcess:
    def __init__(self, name, amb_seed, worker_info=None):
        self.name = name
        self.amb = amb_from_seed(amb_seed)
        _ENTROPY["incarnations"] += 1
        self.entropy = random.Random(f"entropy/{name}/{amb_seed}/{_ENTROPY['incarnations']}")
        self.sched = random.Random(f"sched/{name}/{amb_seed}/{_ENTROPY['incarnations']}")
        self.pid = 50000 + _ENTROPY["incarnations"]
        # torch's intra-op thread count is a per-process setting (dataloader workers run with 1, a main process with whatever the
        # machine / OMP_NUM_THREADS says): results must not depend on it
        self.num_threads = 1 if name.startswith("worker") else [1, 2, 4, 8][amb_seed % 4 if isinstance(amb_seed, int) else 0]
        self.worker_info = worker_info
        self.objects = {}
        self._depth = 0

    @contextmanager
    def on_cpu(self):
        assert self._depth == 0, "SimProcess re-entered"
        self._depth = 1
        outer = save_amb()
        outer_wi = tw._worker_info
        outer_entropy = _ENTROPY["current"]
        outer_sched, outer_pid, outer_getpid = _SCHED["current"], _PID["current"], _os.getpid
        load_amb(self.amb)
        tw._worker_info = self.worker_info
        _ENTROPY["current"] = self.entropy
        _SCHED["current"] = self.sched
        _PID["current"] = self.pid
        _os.getpid = _sim_getpid
        outer_threads = torch.get_num_threads
        nt = self.num_threads
        torch.get_num_threads = lambda: nt
        # every process is its own interpreter launch as far as str/bytes hashing is concerned (spawn semantics, like the
        # pickle boundary); C-level hashing of dict/set keys is not affected by replacing the builtin
        self._hash_ctx = salted_hash(f"proc/{self.name}/{self.pid}")
        self._hash_ctx.__enter__()
        try:
            yield self
        finally:
            self.amb = save_amb()
            load_amb(outer)
            tw._worker_info = outer_wi
            _ENTROPY["current"] = outer_entropy
            _SCHED["current"], _PID["current"], _os.getpid = outer_sched, outer_pid, outer_getpid
            torch.get_num_threads = outer_threads
            self._hash_ctx.__exit__()
            self._depth = 0

    def clobber(self, which, seed):
        """foreign code in this process reseeds / advances one of the global RNGs (fault F8)"""
        with self.on_cpu():
            if which == "py":
                random.seed(seed)
            elif which == "np":
                np.random.seed(seed % (2 ** 32))
            elif which == "torch":
                torch.manual_seed(seed)
            elif which == "advance":
                random.random()
                np.random.rand(3)
                torch.rand(3)
            else:
                raise ValueError(which)

    def adopt(self, key, obj, via_pickle=True):
        self.objects[key] = pickle_copy(obj) if via_pickle else obj
        return self.objects[key]

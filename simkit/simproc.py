"""Simulated processes: private object copies, private ambient RNG triple, private worker_info.

Exactly one SimProcess is "on CPU" at any instant; entering it installs its
ambient (random / numpy / torch) global RNG states and its torch worker_info,
leaving it saves them and restores the caller's.
"""
import pickle
import random
from contextlib import contextmanager

import numpy as np
import torch
from torch.utils.data._utils import worker as tw


# ---- OS entropy seam -------------------------------------------------------------------------------------------------
# numpy's SeedSequence obtains OS entropy through the module attribute numpy.random.bit_generator.randbits.  Under
# simulation every process incarnation gets its own deterministic entropy stream, so `default_rng()` without a seed is
# repeatable run for run (replay works) and still differs between two incarnations of "the same" worker (as it would
# with real OS entropy).
import numpy.random.bit_generator as _bg

_ENTROPY = {"default": random.Random("entropy/default"), "current": None, "incarnations": 0}


def _sim_randbits(n):
    src = _ENTROPY["current"] or _ENTROPY["default"]
    return src.getrandbits(n)


_bg.randbits = _sim_randbits


def reset_entropy():
    _ENTROPY["default"] = random.Random("entropy/default")
    _ENTROPY["current"] = None
    _ENTROPY["incarnations"] = 0


def save_amb():
    return (random.getstate(), np.random.get_state(), torch.get_rng_state())


def load_amb(s):
    random.setstate(s[0])
    np.random.set_state(s[1])
    torch.set_rng_state(s[2])


def amb_equal(a, b):
    return (a[0] == b[0] and a[1][0] == b[1][0] and np.array_equal(a[1][1], b[1][1]) and a[1][2:] == b[1][2:]
            and torch.equal(a[2], b[2]))


def amb_from_seed(seed):
    """a fresh ambient triple that is a function of `seed` only (does not disturb the caller's)"""
    outer = save_amb()
    try:
        random.seed(seed)
        np.random.seed(seed % (2 ** 32))
        torch.manual_seed(seed)
        return save_amb()
    finally:
        load_amb(outer)


def pickle_copy(obj):
    return pickle.loads(pickle.dumps(obj))


class SimProcess:
    def __init__(self, name, amb_seed, worker_info=None):
        self.name = name
        self.amb = amb_from_seed(amb_seed)
        _ENTROPY["incarnations"] += 1
        self.entropy = random.Random(f"entropy/{name}/{amb_seed}/{_ENTROPY['incarnations']}")
        self.worker_info = worker_info
        self.objects = {}
        self._depth = 0

    @contextmanager
    def on_cpu(self):
        assert self._depth == 0, "SimProcess re-entered"
        self._depth = 1
        outer = save_amb()
        outer_wi = tw._worker_info
        outer_entropy = _ENTROPY["current"]
        load_amb(self.amb)
        tw._worker_info = self.worker_info
        _ENTROPY["current"] = self.entropy
        try:
            yield self
        finally:
            self.amb = save_amb()
            load_amb(outer)
            tw._worker_info = outer_wi
            _ENTROPY["current"] = outer_entropy
            self._depth = 0

    def clobber(self, which, seed):
        """foreign code in this process reseeds / advances one of the global RNGs (fault F8)"""
        with self.on_cpu():
            if which == "py":
                random.seed(seed)
            elif which == "np":
                np.random.seed(seed % (2 ** 32))
            elif which == "torch":
                torch.manual_seed(seed)
            elif which == "advance":
                random.random()
                np.random.rand(3)
                torch.rand(3)
            else:
                raise ValueError(which)

    def adopt(self, key, obj, via_pickle=True):
        self.objects[key] = pickle_copy(obj) if via_pickle else obj
        return self.objects[key]

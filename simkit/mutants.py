"""sensitivity self-test: apply each /verif/mutants/<PROP>-<name>.patch to a scratch copy of the repo (outside /repo and
/verif, removed afterwards) and require the owning property's check to exit 1 with a replaying VIOLATION line"""
import glob
import os
import shutil
import subprocess
import sys
import time

from . import env


def run_one(patch, tier, runs=None):
    """a patch named C08+C15-<name>.patch is run against both checks (worst verdict wins)"""
    name = os.path.basename(patch)[:-len(".patch")]
    props = name.split("-")[0].split("+")
    worst = None
    for prop in props:
        r = _run_one(patch, name, prop, tier, runs)
        order = {"HARNESS-ERROR": 3, "PATCH-FAILED": 3, "CAUGHT": 2, "MISSED": 1}
        if worst is None or order.get(r[2], 3) > order.get(worst[2], 3):
            worst = r
    return worst


def _run_one(patch, name, prop, tier, runs=None):
    scratch = f"/tmp/kd_mutant_{os.getpid()}_{name.replace('+', '_')}"
    shutil.rmtree(scratch, ignore_errors=True)
    try:
        subprocess.run(["rsync", "-a", "--exclude", ".git", env.repo_dir() + "/", scratch + "/"], check=True)
        p = subprocess.run(["patch", "-p1", "-s", "-i", patch], cwd=scratch, capture_output=True, text=True)
        if p.returncode != 0:
            return name, prop, "PATCH-FAILED", p.stdout + p.stderr, 0
        e = env.child_env(VERIF_REPO=scratch, VERIF_MUTANT_RUN="1")
        if runs:
            e["VERIF_RUNS"] = str(runs)
        t0 = time.time()
        logf = os.path.join(env.VERIF_DIR, ".work", f"mutant-{name}.log")
        os.makedirs(os.path.dirname(logf), exist_ok=True)
        with open(logf, "w") as lf:  # a file, not a pipe: a stray grandchild holding a pipe open would block us forever
            try:
                rc = subprocess.run([os.path.join(env.VERIF_DIR, "check"), prop, "--tier", tier], stdout=lf,
                                    stderr=subprocess.STDOUT, env=e, cwd=env.VERIF_DIR, timeout=3600).returncode
            except subprocess.TimeoutExpired:
                rc = 2
        stdout = open(logf).read()
        os.remove(logf)
        lines = [l for l in stdout.splitlines() if l.startswith("VIOLATION") or l.startswith("  key=")]
        status = {0: "MISSED", 1: "CAUGHT", 2: "HARNESS-ERROR"}.get(rc, f"exit{rc}")
        return name, prop, status, "\n".join(lines[:4]) if rc != 2 else stdout[-1500:], time.time() - t0
    finally:
        shutil.rmtree(scratch, ignore_errors=True)


def main(names, tier, folder="mutants", expect="CAUGHT"):
    """mutants: every patch must be CAUGHT; refactors (behaviour-preserving rewrites): every patch must leave the check at exit 0"""
    patches = sorted(glob.glob(os.path.join(env.VERIF_DIR, folder, "*.patch")))
    if names:
        patches = [p for p in patches if any(n in os.path.basename(p) for n in names)]
    bad = 0
    # evidence files are rewritten by every check run; keep the real ones
    ev_dir = os.path.join(env.VERIF_DIR, "evidence")
    keep = os.path.join(env.VERIF_DIR, ".work", "evidence_keep")
    shutil.rmtree(keep, ignore_errors=True)
    os.makedirs(os.path.dirname(keep), exist_ok=True)
    if os.path.isdir(ev_dir):
        shutil.copytree(ev_dir, keep)
    try:
        for p in patches:
            name, prop, status, info, dt = run_one(p, tier, os.environ.get("VERIF_MUTANT_RUNS"))
            if expect == "HELD":
                status = {"MISSED": "HELD", "CAUGHT": "FALSE-ALARM"}.get(status, status)
            print(f"{status:14s} {name}  ({dt:.0f}s)")
            if status != expect:
                bad += 1
                print("   " + info.replace("\n", "\n   "))
            elif expect == "CAUGHT":
                print("   " + info.split("\n")[1].strip()[:200] if "\n" in info else "")
            sys.stdout.flush()
    finally:
        if os.path.isdir(keep):
            shutil.rmtree(ev_dir, ignore_errors=True)
            shutil.copytree(keep, ev_dir)
            shutil.rmtree(keep, ignore_errors=True)
    print(f"{len(patches) - bad}/{len(patches)} {folder} {'caught' if expect == 'CAUGHT' else 'held (no false alarm)'}")
    return 0 if not bad else 1


def seeded(names, tier):
    """regression over /verif/seeded/<id>/patch.diff: the check(s) recorded as CAUGHT in meta.json must still catch the change"""
    import json
    dirs = sorted(glob.glob(os.path.join(env.VERIF_DIR, "seeded", "*")))
    if names:
        dirs = [d for d in dirs if any(n in os.path.basename(d) for n in names)]
    bad = 0
    for d in dirs:
        sid = os.path.basename(d)
        meta = json.load(open(os.path.join(d, "meta.json")))
        if meta.get("out_of_scope"):
            print(f"{'OUT-OF-SCOPE':14s} {sid}: {meta['out_of_scope'][:160]}")
            continue
        props = [p for p, c in meta.get("checks", {}).items() if c.get("verdict") == "CAUGHT"] or [meta["property"]]
        for prop in props:
            name, _, status, info, dt = _run_one(os.path.join(d, "patch.diff"), sid, prop, tier, os.environ.get("VERIF_MUTANT_RUNS"))
            print(f"{status:14s} {sid} [{prop}]  ({dt:.0f}s)")
            if status != "CAUGHT":
                bad += 1
                print("   " + info.replace("\n", "\n   ")[:600])
            sys.stdout.flush()
    print(f"{len(dirs)} seeded changes, {bad} not caught")
    return 0 if not bad else 1

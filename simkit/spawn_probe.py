"""stub validation of the 'spawn' model of simkit.simloader (never decides a property):
a dataset holding a tensor, a view of it and a numpy array is mutated by 2 workers; run with the real DataLoader under
both start methods and with the simulated loader under both models; the parent-side end states must agree.
Run as a script (the spawn start method re-imports the main module): prints one JSON line."""
import json
import os
import sys

sys.path.insert(0, os.path.dirname(os.path.dirname(os.path.abspath(__file__))))

import numpy as np
import torch
from torch.utils.data import DataLoader, Dataset


class Probe(Dataset):
    def __init__(self):
        self.t = torch.zeros(4)
        self.a = np.zeros(4)
        self.view = self.t[1:3]

    def __len__(self):
        return 8

    def __getitem__(self, i):
        wi = torch.utils.data.get_worker_info()
        self.t[wi.id] += 1
        self.a[wi.id] += 1
        return i


def end_state(d):
    return dict(tensor=d.t.tolist(), view=d.view.tolist(), numpy=d.a.tolist())


def main():
    from simkit.chooser import Chooser
    from simkit.simloader import SimDataLoader
    res = {}
    for method in ("fork", "spawn"):
        d = Probe()
        list(DataLoader(d, batch_size=1, num_workers=2, multiprocessing_context=method))
        res["real_" + method] = end_state(d)

        class L(SimDataLoader):
            chooser = Chooser(seed=1)
            trace = []
            start_method = method

        d = Probe()
        list(L(d, batch_size=1, num_workers=2))
        res["sim_" + method] = end_state(d)
    res["agree"] = res["real_fork"] == res["sim_fork"] and res["real_spawn"] == res["sim_spawn"]
    print("SPAWN-PROBE " + json.dumps(res, sort_keys=True))


if __name__ == "__main__":
    main()

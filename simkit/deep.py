"""exact deep equality and stable hashing of samples (tensors, PIL, numpy, containers)"""
import hashlib

import numpy as np
import torch

try:
    from PIL import Image
except Exception:  # pragma: no cover
    Image = None


def deep_equal(a, b):
    return deep_diff(a, b) is None


def deep_diff(a, b, path="$"):
    """None if equal else a short description of the first difference"""
    if torch.is_tensor(a) or torch.is_tensor(b):
        if not (torch.is_tensor(a) and torch.is_tensor(b)):
            return f"{path}: {type(a).__name__} vs {type(b).__name__}"
        if a.dtype != b.dtype or a.shape != b.shape:
            return f"{path}: tensor {a.dtype}{tuple(a.shape)} vs {b.dtype}{tuple(b.shape)}"
        if a.dtype.is_floating_point:
            same = torch.equal(torch.nan_to_num(a, nan=12345.678), torch.nan_to_num(b, nan=12345.678)) and \
                   torch.equal(torch.isnan(a), torch.isnan(b))
        else:
            same = torch.equal(a, b)
        if not same:
            return f"{path}: tensor values differ ({_short(a)} vs {_short(b)})"
        return None
    if Image is not None and (isinstance(a, Image.Image) or isinstance(b, Image.Image)):
        if not (isinstance(a, Image.Image) and isinstance(b, Image.Image)):
            return f"{path}: {type(a).__name__} vs {type(b).__name__}"
        if a.mode != b.mode or a.size != b.size:
            return f"{path}: PIL {a.mode}{a.size} vs {b.mode}{b.size}"
        if a.tobytes() != b.tobytes():
            return f"{path}: PIL pixels differ"
        return None
    if isinstance(a, np.ndarray) or isinstance(b, np.ndarray):
        if not (isinstance(a, np.ndarray) and isinstance(b, np.ndarray)):
            return f"{path}: {type(a).__name__} vs {type(b).__name__}"
        if a.dtype != b.dtype or a.shape != b.shape or not np.array_equal(a, b, equal_nan=a.dtype.kind == "f"):
            return f"{path}: ndarray differs"
        return None
    if isinstance(a, dict) or isinstance(b, dict):
        if not (isinstance(a, dict) and isinstance(b, dict)):
            return f"{path}: {type(a).__name__} vs {type(b).__name__}"
        ka, kb = set(a.keys()), set(b.keys())
        if ka != kb:
            return f"{path}: keys differ: only left {sorted(map(str, ka - kb))}, only right {sorted(map(str, kb - ka))}"
        for k in sorted(a, key=str):
            d = deep_diff(a[k], b[k], f"{path}.{k}")
            if d:
                return d
        return None
    if isinstance(a, (list, tuple)) or isinstance(b, (list, tuple)):
        if type(a) is not type(b) and not (isinstance(a, (list, tuple)) and isinstance(b, (list, tuple)) and type(a) == type(b)):
            return f"{path}: {type(a).__name__} vs {type(b).__name__}"
        if len(a) != len(b):
            return f"{path}: length {len(a)} vs {len(b)}"
        for i, (x, y) in enumerate(zip(a, b)):
            d = deep_diff(x, y, f"{path}[{i}]")
            if d:
                return d
        return None
    if isinstance(a, (np.generic,)) or isinstance(b, (np.generic,)):
        a2 = a.item() if isinstance(a, np.generic) else a
        b2 = b.item() if isinstance(b, np.generic) else b
        return deep_diff(a2, b2, path)
    if isinstance(a, float) and isinstance(b, float):
        if a != b and not (a != a and b != b):
            return f"{path}: {a!r} vs {b!r}"
        return None
    if type(a) is not type(b) and not (isinstance(a, (int, float)) and isinstance(b, (int, float)) and not isinstance(a, bool) and not isinstance(b, bool)):
        return f"{path}: {type(a).__name__} vs {type(b).__name__} ({str(a)[:40]} vs {str(b)[:40]})"
    if a != b:
        return f"{path}: {str(a)[:60]} vs {str(b)[:60]}"
    return None


def _short(t):
    f = t.flatten()[:4].tolist()
    return f"{f}..."


def h(obj, n=12):
    """stable short hash of a sample-like object"""
    m = hashlib.sha256()
    _feed(m, obj)
    return m.hexdigest()[:n]


def _feed(m, o):
    if torch.is_tensor(o):
        m.update(b"T" + str(o.dtype).encode() + str(tuple(o.shape)).encode())
        m.update(o.detach().cpu().contiguous().numpy().tobytes() if o.dtype != torch.bfloat16 else o.float().numpy().tobytes())
    elif Image is not None and isinstance(o, Image.Image):
        m.update(b"P" + o.mode.encode() + str(o.size).encode() + o.tobytes())
    elif isinstance(o, np.ndarray):
        m.update(b"N" + str(o.dtype).encode() + str(o.shape).encode() + np.ascontiguousarray(o).tobytes())
    elif isinstance(o, dict):
        m.update(b"D")
        for k in sorted(o, key=str):
            m.update(str(k).encode() + b"=")
            _feed(m, o[k])
    elif isinstance(o, (list, tuple)):
        m.update(b"L" if isinstance(o, list) else b"U")
        for x in o:
            _feed(m, x)
            m.update(b",")
    elif isinstance(o, np.generic):
        _feed(m, o.item())
    elif isinstance(o, bytes):
        m.update(b"B" + o)
    else:
        m.update(type(o).__name__.encode() + b":" + repr(o).encode())

"""environment check (MANIFEST.setup_cmd) and the determinism self-test"""
import os
import sys

from . import core, env


def setup():
    ok = True
    try:
        kd = env.import_kappadata()
        import torch
        import numpy
        import pyfakefs
        print(f"python {sys.version.split()[0]} torch {torch.__version__} numpy {numpy.__version__} "
              f"pyfakefs {pyfakefs.__version__} ({os.path.dirname(pyfakefs.__file__)}) kappadata from {os.path.dirname(kd.__file__)}")
        if not os.path.realpath(pyfakefs.__file__).startswith(os.path.realpath(env.VERIF_DIR)):
            print("note: pyfakefs is not the vendored copy")
    except Exception as e:
        print("setup failed:", repr(e))
        ok = False
    os.makedirs(os.path.join(env.VERIF_DIR, "evidence"), exist_ok=True)
    os.makedirs(os.path.join(env.VERIF_DIR, "replays"), exist_ok=True)
    return 0 if ok else 2


def determinism(props, tier, verif_seed, n=40):
    """every sampled run is executed in 3 fresh interpreters: twice under PYTHONHASHSEED=0 with different shard
    layouts, once under another hash seed; the trace digests must agree"""
    bad = 0
    n = int(os.environ.get("VERIF_DET_N", n))
    for prop in props:
        prop = prop.upper()
        ids = list(range(n))
        a, ea = core.spawn_shards(prop, tier, verif_seed, 1, n, 1e9, 1800, only_runs=ids, tag="dA")
        b, eb = core.spawn_shards(prop, tier, verif_seed, 1, n, 1e9, 1800, only_runs=list(reversed(ids)),
                                  extra_env={"PYTHONHASHSEED": "12345"}, tag="dB")
        c, ec = core.spawn_shards(prop, tier, verif_seed, 1, n, 1e9, 1800, only_runs=ids[::2] + ids[1::2],
                                  extra_env={"PYTHONHASHSEED": "987"}, tag="dC")
        errs = ea + eb + ec
        if errs or not (a and b and c):
            print(f"{prop}: HARNESS-ERROR {errs[:2]}")
            bad += 1
            continue
        da, db, dc = a[0]["digests"], b[0]["digests"], c[0]["digests"]
        mism = [k for k in da if not (da[k] == db.get(k) == dc.get(k))]
        print(f"{prop}: {len(da)} runs x 3 interpreters (hash seeds 0/12345/987, three execution orders): "
              f"{len(mism)} digest mismatches {mism[:5]}")
        bad += bool(mism)
    return 0 if not bad else 2

"""environment check (MANIFEST.setup_cmd) and the determinism self-test"""
import os
import sys

from . import core, env


def setup():
    ok = True
    try:
        kd = env.import_kappadata()
        import torch
        import numpy
        import pyfakefs
        print(f"python {sys.version.split()[0]} torch {torch.__version__} numpy {numpy.__version__} "
              f"pyfakefs {pyfakefs.__version__} ({os.path.dirname(pyfakefs.__file__)}) kappadata from {os.path.dirname(kd.__file__)}")
        if not os.path.realpath(pyfakefs.__file__).startswith(os.path.realpath(env.VERIF_DIR)):
            print("note: pyfakefs is not the vendored copy")
    except Exception as e:
        print("setup failed:", repr(e))
        ok = False
    os.makedirs(os.path.join(env.VERIF_DIR, "evidence"), exist_ok=True)
    os.makedirs(os.path.join(env.VERIF_DIR, "replays"), exist_ok=True)
    return 0 if ok else 2


def determinism(props, tier, verif_seed, n=40):
    """every sampled run is executed in 3 fresh interpreters: twice under PYTHONHASHSEED=0 with different shard
    layouts, once under another hash seed; the trace digests must agree"""
    bad = 0
    n = int(os.environ.get("VERIF_DET_N", n))
    for prop in props:
        prop = prop.upper()
        ids = list(range(n))
        a, ea = core.spawn_shards(prop, tier, verif_seed, 1, n, 1e9, 1800, only_runs=ids, tag="dA")
        b, eb = core.spawn_shards(prop, tier, verif_seed, 1, n, 1e9, 1800, only_runs=list(reversed(ids)),
                                  extra_env={"PYTHONHASHSEED": "12345"}, tag="dB")
        c, ec = core.spawn_shards(prop, tier, verif_seed, 1, n, 1e9, 1800, only_runs=ids[::2] + ids[1::2],
                                  extra_env={"PYTHONHASHSEED": "987"}, tag="dC")
        errs = ea + eb + ec
        if errs or not (a and b and c):
            print(f"{prop}: HARNESS-ERROR {errs[:2]}")
            bad += 1
            continue
        da, db, dc = a[0]["digests"], b[0]["digests"], c[0]["digests"]
        mism = [k for k in da if not (da[k] == db.get(k) == dc.get(k))]
        print(f"{prop}: {len(da)} runs x 3 interpreters (hash seeds 0/12345/987, three execution orders): "
              f"{len(mism)} digest mismatches {mism[:5]}")
        bad += bool(mism)
    return 0 if not bad else 2


def soak(rest, tier, verif_seed, props):
    """./check soak <minutes> [ids...]: run the checks over and over with fresh VERIF_SEEDs until the time is used up;
    reports go to .work/soak (never to the official evidence); any VIOLATION / HARNESS-ERROR line is echoed"""
    import subprocess
    import time
    minutes = float(rest[0]) if rest else 30
    ids = [r.upper() for r in rest[1:]] or props
    t_end = time.time() + minutes * 60
    seed = verif_seed + 1000
    ev = os.path.join(env.VERIF_DIR, ".work", "soak")
    os.makedirs(ev, exist_ok=True)
    totals = {p: [0, 0] for p in ids}
    bad = 0
    while time.time() < t_end:
        for p in ids:
            if time.time() >= t_end:
                break
            e = env.child_env(VERIF_SEED=seed, VERIF_EVIDENCE_DIR=ev)
            logf = os.path.join(ev, f"{p}-{seed}.log")
            with open(logf, "w") as lf:
                rc = subprocess.run([os.path.join(env.VERIF_DIR, "check"), p, "--tier", tier], stdout=lf, stderr=subprocess.STDOUT, env=e,
                                    cwd=env.VERIF_DIR).returncode
            txt = open(logf).read()
            totals[p][0] += 1
            if rc != 0:
                bad += 1
                totals[p][1] += 1
                print(f"seed {seed} {p} exit {rc}")
                for l in txt.splitlines():
                    if l.startswith(("VIOLATION", "  key=", "HARNESS", "KNOWN")):
                        print("   " + l[:300])
                sys.stdout.flush()
            else:
                os.remove(logf)
        seed += 1
    print("soak summary (runs, non-zero exits):", totals)
    return 0 if not bad else 1

"""simfs: crashable in-memory file system on top of pyfakefs.

Every durable change in pyfakefs goes through FakeDirectory.add_entry, FakeDirectory.remove_entry or
FakeFile.set_initial_contents (FakeFilesystem.rename is treated as ONE atomic primitive, like rename(2)).
Those are intercepted; the controller counts them, lets a baton scheduler switch parallel unzip jobs at
them, and injects faults there:
  kill   - SimCrash (BaseException) *before* primitive k; the FS is frozen afterwards, i.e. every later
           primitive of unwinding `with` blocks / finally handlers raises again (kill -9: nothing more is written)
  torn   - primitive k is a content write: a prefix of the content is committed, then kill
  eio / enospc - primitive k raises OSError once; the call unwinds normally, the process survives
Directory listings (listdir/scandir) are returned in an order drawn from the attempt's listing seed.
"""
import errno
import os
import random

from pyfakefs import fake_file, fake_filesystem, fake_scandir
from pyfakefs.fake_filesystem_unittest import Patcher

from .baton import BatonScheduler
from .chooser import Chooser


class SimCrash(BaseException):
    pass


class FsCtl:
    def __init__(self):
        self.active = False
        self.reset()

    def reset(self, fault=None, list_seed=0, sched_seed=0):
        self.n = 0
        self.fault = fault
        self.crashed = False
        self.fired = None
        self.log = []
        self.atomic = 0
        self.list_seed = list_seed
        self.list_calls = 0
        self.sched_seed = sched_seed
        self.sched = None
        self.parallel_sections = 0
        self.sched_trace = []
        self.match_count = 0
        self.pending_after = False
        self.classify = None  # callable(path) -> role

    # -- fault matching -----------------------------------------------------------------------
    def _fault_hits(self, kind, path):
        f = self.fault
        if f is None or self.fired is not None:
            return False
        if "at" in f:
            return self.n == f["at"]
        if self.pending_after:
            return True
        m = f["match"]
        role = self.classify(path) if self.classify else "?"
        if m.get("kind") not in (None, kind) or m.get("role") not in (None, role):
            return False
        self.match_count += 1
        if self.match_count - 1 != f.get("nth", 0):
            return False
        if f.get("after"):
            self.pending_after = True  # let this primitive complete, hit the next one
            return False
        return True

    def op(self, kind, path, commit_prefix=None):
        """called before a primitive executes; returns normally if it may proceed"""
        if not self.active or self.atomic:
            return
        if self.crashed:
            raise SimCrash()
        if self.sched is not None:
            self.sched.yield_point()
            if self.crashed:
                raise SimCrash()
        if self._fault_hits(kind, path):
            f = self.fault
            self.fired = dict(kind=f["kind"], at=self.n, prim=kind, path=path,
                              role=self.classify(path) if self.classify else "?")
            if f["kind"] in ("eio", "enospc"):
                self.n += 1
                self.log.append([kind, path, "ERR"])
                raise OSError(errno.EIO if f["kind"] == "eio" else errno.ENOSPC, "injected I/O error", path)
            if f["kind"] == "torn" and kind == "write" and commit_prefix is not None:
                self.fired["torn"] = True
                commit_prefix(f.get("frac", 0.5))
            self.crashed = True
            raise SimCrash()
        self.n += 1
        self.log.append([kind, path])

    def order(self, names):
        names = sorted(names)
        if self.active:
            self.list_calls += 1
            random.Random(f"{self.list_seed}/{self.list_calls}").shuffle(names)
        return names


CTL = FsCtl()
_installed = False


def _dir_path(d):
    try:
        return d.path
    except Exception:
        return "?"


def install():
    global _installed
    if _installed:
        return
    _installed = True
    o_add = fake_file.FakeDirectory.add_entry
    o_rm = fake_file.FakeDirectory.remove_entry
    o_set = fake_file.FakeFile.set_initial_contents
    o_rename = fake_filesystem.FakeFilesystem.rename
    o_listdir = fake_filesystem.FakeFilesystem.listdir
    o_scan_init = fake_scandir.ScanDirIter.__init__

    def add_entry(self, path_object):
        CTL.op("add", f"{_dir_path(self).rstrip('/')}/{path_object.name}")
        return o_add(self, path_object)

    def remove_entry(self, pathname_name, recursive=True):
        CTL.op("rm", f"{_dir_path(self).rstrip('/')}/{pathname_name}")
        return o_rm(self, pathname_name, recursive)

    def set_initial_contents(self, contents):
        if CTL.active and not CTL.atomic:
            try:
                path = self.path
            except Exception:
                path = self.name

            def commit_prefix(frac):
                data = self._encode_contents(contents) or b""
                CTL.atomic += 1
                try:
                    o_set(self, data[:int(len(data) * frac)])
                finally:
                    CTL.atomic -= 1

            CTL.op("write", path, commit_prefix)
        return o_set(self, contents)

    def rename(self, old_file_path, new_file_path, force_replace=False):
        CTL.op("rename", f"{old_file_path}->{new_file_path}")
        CTL.atomic += 1
        try:
            return o_rename(self, old_file_path, new_file_path, force_replace)
        finally:
            CTL.atomic -= 1

    def listdir(self, target_directory):
        return CTL.order(o_listdir(self, target_directory))

    def scan_init(self, filesystem, path):
        o_scan_init(self, filesystem, path)
        self.entry_iter = iter(tuple(CTL.order(list(self.entry_iter))))

    fake_file.FakeDirectory.add_entry = add_entry
    fake_file.FakeDirectory.remove_entry = remove_entry
    fake_file.FakeFile.set_initial_contents = set_initial_contents
    fake_filesystem.FakeFilesystem.rename = rename
    fake_filesystem.FakeFilesystem.listdir = listdir
    fake_scandir.ScanDirIter.__init__ = scan_init


# ----------------------------------------------------------------------------------------------
# joblib replacement: unzip jobs are baton threads that yield at FS primitives
# ----------------------------------------------------------------------------------------------
class SimParallel:
    def __init__(self, n_jobs=1, **kw):
        self.n_jobs = n_jobs

    def __call__(self, jobs):
        jobs = list(jobs)
        results = [None] * len(jobs)
        queue = list(enumerate(jobs))
        CTL.parallel_sections += 1
        sched = BatonScheduler(Chooser(seed=f"{CTL.sched_seed}/{CTL.parallel_sections}"))

        def worker():
            while queue:
                i, (f, a, k) = queue.pop(0)
                results[i] = f(*a, **k)

        for w in range(max(1, min(self.n_jobs, len(jobs)))):
            sched.spawn(f"uz{w}", worker)
        CTL.sched = sched
        try:
            outcome = sched.run()
        finally:
            CTL.sched = None
            CTL.sched_trace.append(list(sched.trace))
        if CTL.crashed:
            raise SimCrash()
        for name in sorted(outcome):
            exc = outcome[name][1]
            if exc is not None:
                raise exc
        return results


class FakeJoblib:
    Parallel = SimParallel

    @staticmethod
    def delayed(f):
        def wrap(*a, **k):
            return (f, a, k)

        return wrap


# ----------------------------------------------------------------------------------------------
# a simulated machine: one fake FS, attempts (process lifetimes) on it
# ----------------------------------------------------------------------------------------------
class SimMachine:
    def __init__(self):
        install()
        self.patcher = Patcher()
        self.patcher.setUp()
        self.fs = self.patcher.fs
        self.fs.shuffle_listdir_results = False
        # tempfile.gettempdir() probes candidate folders by creating a file with an OS-random name: pin the answer
        # (pyfakefs creates this folder at set-up), so that the probe is neither a source of nondeterminism nor an FS event
        import tempfile
        self._old_tempdir = tempfile.tempdir
        self.tempdir = "/tmp"
        if not self.fs.exists(self.tempdir):
            self.fs.create_dir(self.tempdir)
        tempfile.tempdir = self.tempdir

    def close(self):
        CTL.active = False
        import tempfile
        tempfile.tempdir = self._old_tempdir
        self.patcher.tearDown()

    def __enter__(self):
        return self

    def __exit__(self, *a):
        self.close()

    def reboot(self):
        """drop every handle the dead process leaked (nothing is flushed)"""
        for lst in list(self.fs.open_files[3:]):
            if lst:
                for w in list(lst):
                    try:
                        self.fs.close_open_file(w.filedes)
                    except BaseException:
                        pass
        self._normalise(self.fs.root_dir)

    def _normalise(self, d):
        """a file whose creation persisted but whose first content flush did not is an empty file on a real FS
        (pyfakefs would treat content None as a 'large file' that cannot be read)"""
        for name in list(d.entries):
            e = d.entries[name]
            if isinstance(e, fake_file.FakeDirectory):
                self._normalise(e)
            elif getattr(e, "_byte_contents", b"") is None:
                e._byte_contents = b""
                e.st_size = 0

    def attempt(self, fn, fault=None, list_seed=0, sched_seed=0, classify=None):
        """one process lifetime: returns dict(status, result, error, prims, log, fired, sched)"""
        CTL.reset(fault, list_seed, sched_seed)
        CTL.classify = classify
        CTL.active = True
        try:  # a thread pool started by the code under test draws its task order from this attempt's schedule seed
            from . import simproc as _sp
            _sp._SCHED["default"] = random.Random(f"sched/fs/{sched_seed}")
        except Exception:
            pass
        status, result, error = "ok", None, None
        self.attempts = getattr(self, "attempts", 0) + 1
        from . import simproc as _sp
        import os as _os_mod
        saved_getpid, saved_pid = _os_mod.getpid, _sp._PID["current"]
        _sp._PID["current"] = 60000 + self.attempts
        _os_mod.getpid = _sp._sim_getpid
        hash_ctx = _sp.salted_hash(f"fs-attempt/{self.attempts}")
        hash_ctx.__enter__()
        try:
            result = fn()
        except SimCrash:
            status = "crash"
        except Exception as e:  # the call raised: it returned nothing
            status = "exc"
            error = f"{type(e).__name__}: {e}"
        finally:
            hash_ctx.__exit__()
            _os_mod.getpid, _sp._PID["current"] = saved_getpid, saved_pid
            CTL.active = False
            if CTL.crashed and status != "crash":
                status = "crash"  # somebody swallowed the kill; the process is dead all the same
            self.reboot()
        return dict(status=status, result=result, error=error, prims=CTL.n, log=list(CTL.log), fired=CTL.fired,
                    sched=list(CTL.sched_trace))


def snapshot(root):
    """{relative path: bytes | None for directories}; None if root does not exist"""
    if not os.path.exists(root):
        return None
    out = {}
    for dp, dn, fn in os.walk(root):
        for d in dn:
            out[os.path.relpath(os.path.join(dp, d), root)] = None
        for f in fn:
            p = os.path.join(dp, f)
            with open(p, "rb") as fh:
                out[os.path.relpath(p, root)] = fh.read()
    return out

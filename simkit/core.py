"""Seeded search driver: plan -> execute -> oracle -> shrink -> replay.

One integer decides everything: VERIF_SEED, the property id and the run number
are hashed into the seed of the plan generator.  `execute(plan)` reads no
entropy and no clock.  Shards are separate interpreters started by PID.
"""
import faulthandler
import hashlib
import json
import os
import random
import subprocess
import sys
import time
import traceback

from . import env

EXIT_OK, EXIT_VIOLATION, EXIT_HARNESS = 0, 1, 2


# ----------------------------------------------------------------------------------------------
# seeds, digests
# ----------------------------------------------------------------------------------------------
def derive_seed(verif_seed, prop, run):
    h = hashlib.sha256(f"{verif_seed}/{prop}/{run}".encode()).digest()
    return int.from_bytes(h[:8], "big")


def caused_by(e, *types):
    """is `e`, or anything in its cause/context chain, one of the harness's injected faults?  (code under test may wrap the
    error of a dependency in an error of its own: still a loud failure)"""
    seen = 0
    while e is not None and seen < 12:
        if isinstance(e, types):
            return True
        e = e.__cause__ or e.__context__
        seen += 1
    return False


class Streams:
    """named PRNG sub-streams of one plan seed (shrinking one part does not shift another)"""

    def __init__(self, seed):
        self.seed = seed
        self._s = {}

    def __call__(self, name):
        if name not in self._s:
            self._s[name] = random.Random(f"{self.seed}/{name}")
        return self._s[name]


def canon(obj):
    return json.dumps(obj, sort_keys=True, separators=(",", ":"), default=_default)


def _default(o):
    # last resort for event payloads: stable textual form (never id()/repr with addresses)
    if isinstance(o, (set, frozenset)):
        return sorted(o)
    if isinstance(o, bytes):
        return o.hex()
    if hasattr(o, "tolist"):
        return o.tolist()
    if hasattr(o, "item"):
        return o.item()
    raise TypeError(f"not canonicalisable: {type(o)}")


def digest(events):
    return hashlib.sha256(canon(events).encode()).hexdigest()


# ----------------------------------------------------------------------------------------------
# outcome of one execution
# ----------------------------------------------------------------------------------------------
class Outcome:
    def __init__(self):
        self.events = []  # the recorded history (JSON-able); its digest identifies the run
        self.violations = []  # dicts: cls, site, detail
        self.counters = {}  # fault kinds fired, probes, logical time ...
        self.nontrivial = False
        self.rejected = False  # constructor refused the configuration
        self.tags = []  # free-form labels of what the run covered (become probe counters)

    def ev(self, *e):
        self.events.append(list(e))

    def count(self, name, n=1):
        self.counters[name] = self.counters.get(name, 0) + n

    def violate(self, cls, site, detail):
        self.violations.append({"cls": cls, "site": str(site), "detail": str(detail)[:2000]})

    @property
    def digest(self):
        return digest(self.events)


def vkey(v):
    return f"{v['cls']}@{v['site']}"


# ----------------------------------------------------------------------------------------------
# property spec
# ----------------------------------------------------------------------------------------------
class PropSpec:
    """what a property module provides"""
    prop = None
    level = "exploration"
    rule = ""
    assumptions = ()
    components = {}
    tiers = {"quick": dict(runs=1000, budget_s=40), "thorough": dict(runs=20000, budget_s=600)}
    determinism_sample = 6

    def gen_plan(self, seed, tier):
        raise NotImplementedError

    def execute(self, plan):
        raise NotImplementedError

    def shrink_candidates(self, plan):
        """yield simpler plans, most aggressive first"""
        return generic_candidates(plan, getattr(self, "shrink_lists", ()), getattr(self, "shrink_ints", ()))

    def extra_evidence(self, tier, seed):
        return {}


def _get(plan, path):
    cur = plan
    for p in path:
        cur = cur[p]
    return cur


def _set(plan, path, value):
    new = json.loads(canon(plan))
    cur = new
    for p in path[:-1]:
        cur = cur[p]
    cur[path[-1]] = value
    return new


def _paths(plan, pattern):
    """expand a path pattern with '*' wildcards into concrete paths"""
    out = [[]]
    for p in pattern:
        nxt = []
        for base in out:
            try:
                cur = _get(plan, base)
            except (KeyError, IndexError, TypeError):
                continue
            if p == "*":
                if isinstance(cur, list):
                    nxt += [base + [i] for i in range(len(cur))]
                elif isinstance(cur, dict):
                    nxt += [base + [k] for k in sorted(cur)]
            else:
                if (isinstance(cur, dict) and p in cur) or (isinstance(cur, list) and isinstance(p, int) and p < len(cur)):
                    nxt.append(base + [p])
        out = nxt
    return out


def generic_candidates(plan, list_patterns, int_patterns):
    # 1. drop chunks of lists (ddmin flavour: halves, quarters, singles)
    for pat in list_patterns:
        for path in _paths(plan, pat):
            lst = _get(plan, path)
            if not isinstance(lst, list) or not lst:
                continue
            n = len(lst)
            size = n
            while size >= 1:
                for start in range(0, n, size):
                    cand = lst[:start] + lst[start + size:]
                    if len(cand) < n:
                        yield _set(plan, path, cand)
                size //= 2
    # 2. minimise integers
    for pat in int_patterns:
        lo = 0
        if isinstance(pat, tuple):
            pat, lo = pat
        for path in _paths(plan, pat):
            v = _get(plan, path)
            if isinstance(v, bool) or not isinstance(v, int) or v <= lo:
                continue
            tried = set()
            for c in (lo, v // 2, v - 1):
                if lo <= c < v and c not in tried:
                    tried.add(c)
                    yield _set(plan, path, c)


def shrink(spec, plan, key, max_exec=400, max_s=90):
    t0 = time.time()
    n_exec = 0
    improved = True
    best = plan
    while improved and n_exec < max_exec and time.time() - t0 < max_s:
        improved = False
        for cand in spec.shrink_candidates(best):
            if n_exec >= max_exec or time.time() - t0 > max_s:
                break
            n_exec += 1
            try:
                out = safe_execute(spec, cand)
            except HarnessError:
                continue
            if any(vkey(v) == key for v in out.violations):
                best = cand
                improved = True
                break
    return best, n_exec


class HarnessError(Exception):
    pass


def reset_world():
    """every execution of a plan starts from the state of a freshly started process (seams installed, library state reset)"""
    from . import env
    env.import_kappadata()
    sp = sys.modules.get("simkit.simproc")
    if sp is not None:
        sp.reset_entropy()


def safe_execute(spec, plan):
    """execute; exceptions that escape the property's own classification are harness errors"""
    try:
        reset_world()
        out = spec.execute(plan)
    except HarnessError:
        raise
    except BaseException as e:  # noqa
        if isinstance(e, KeyboardInterrupt):
            raise
        raise HarnessError("".join(traceback.format_exception(type(e), e, e.__traceback__))[-4000:])
    return out


# ----------------------------------------------------------------------------------------------
# shard worker
# ----------------------------------------------------------------------------------------------
def run_shard(spec, tier, verif_seed, shard, nshards, out_path, runs, budget_s, only_runs=None):
    faulthandler.enable()
    t0 = time.time()
    res = dict(shard=shard, evaluations=0, rejected=0, nontrivial_digests=[], counters={}, violations=[],
               samples=[], harness_errors=[], digests={}, wall_s=0.0, stopped_by_budget=False)
    nontriv = set()
    per_key = {}
    run_ids = only_runs if only_runs is not None else range(shard, runs, nshards)
    for run in run_ids:
        if only_runs is None and time.time() - t0 > budget_s:
            res["stopped_by_budget"] = True
            break
        seed = derive_seed(verif_seed, spec.prop, run)
        try:
            plan = spec.gen_plan(seed, tier)
            plan["_seed"] = seed
            plan["_run"] = run
            out = safe_execute(spec, plan)
        except HarnessError as e:
            res["harness_errors"].append(dict(run=run, seed=seed, error=str(e)))
            if len(res["harness_errors"]) > 3:
                break
            continue
        res["evaluations"] += 1
        d = out.digest
        if only_runs is not None:
            res["digests"][str(run)] = d
        if out.rejected:
            res["rejected"] += 1
        for k, v in out.counters.items():
            res["counters"][k] = res["counters"].get(k, 0) + v
        for t in out.tags:
            res["counters"]["probe:" + t] = res["counters"].get("probe:" + t, 0) + 1
        if out.nontrivial and not out.rejected:
            nontriv.add(d[:16])
        if len(res["samples"]) < 2 and out.nontrivial:
            res["samples"].append(dict(run=run, seed=seed, plan=plan, digest=d, n_events=len(out.events),
                                       first_events=out.events[:12]))
        seen = set()
        for v in out.violations:
            k = vkey(v)
            if k in seen:
                continue
            seen.add(k)
            per_key[k] = per_key.get(k, 0) + 1
            if per_key[k] <= 2:
                res["violations"].append(dict(run=run, seed=seed, plan=plan, violation=v, digest=d))
    res["violation_counts"] = per_key
    res["nontrivial_digests"] = sorted(nontriv)
    res["wall_s"] = time.time() - t0
    with open(out_path, "w") as f:
        f.write(canon(res))


# ----------------------------------------------------------------------------------------------
# known findings
# ----------------------------------------------------------------------------------------------
def load_known(prop):
    path = os.path.join(env.VERIF_DIR, "known_findings.jsonl")
    out = {}
    if os.path.exists(path):
        for line in open(path):
            line = line.strip()
            if not line or line.startswith("#"):
                continue
            d = json.loads(line)
            if d.get("property") == prop and d.get("status") == "finding":
                out[d["key"]] = d
    return out


# ----------------------------------------------------------------------------------------------
# parent: run a check
# ----------------------------------------------------------------------------------------------
def repo_state():
    repo = env.repo_dir()
    try:
        head = subprocess.run(["git", "-C", repo, "rev-parse", "HEAD"], capture_output=True, text=True, timeout=20).stdout.strip()
        diff = subprocess.run(["git", "-C", repo, "diff", "HEAD"], capture_output=True, timeout=20).stdout
        return dict(head=head, dirty_sha=hashlib.sha256(diff).hexdigest()[:16] if diff else None)
    except Exception:
        return dict(head=None, dirty_sha=None)


def work_dir():
    d = os.path.join(env.VERIF_DIR, ".work")
    os.makedirs(d, exist_ok=True)
    return d


def spawn_shards(prop, tier, verif_seed, nshards, runs, budget_s, wall_cap, only_runs=None, extra_env=None, tag=""):
    procs = []
    wd = work_dir()
    main = os.path.join(env.VERIF_DIR, "simkit", "main.py")
    for s in range(nshards):
        out = os.path.join(wd, f"{prop}-{tier}-{os.getpid()}-{tag}{s}.json")
        if os.path.exists(out):
            os.remove(out)
        cmd = [env.PYTHON, "-B", main, prop, "--_shard", str(s), "--_nshards", str(nshards), "--_out", out,
               "--tier", tier, "--_runs", str(runs), "--_budget", str(budget_s), "--_wallcap", str(wall_cap)]
        if only_runs is not None:
            cmd += ["--_only", ",".join(map(str, only_runs))]
        e = env.child_env(VERIF_SEED=verif_seed, _KD_VERIF_REEXEC="1")
        if extra_env:
            e.update(extra_env)
        log = open(out + ".log", "w")
        p = subprocess.Popen(cmd, stdout=log, stderr=subprocess.STDOUT, env=e, cwd=env.VERIF_DIR)
        procs.append((p, out, log))
    results, errors = [], []
    deadline = time.time() + wall_cap + 30
    for p, out, log in procs:
        try:
            p.wait(timeout=max(1, deadline - time.time()))
        except subprocess.TimeoutExpired:
            p.kill()
            p.wait()
            errors.append(f"shard timed out: {out}")
        log.close()
        if p.returncode != 0:
            tail = open(out + ".log").read()[-3000:]
            errors.append(f"shard exit {p.returncode}: {tail}")
        elif os.path.exists(out):
            results.append(json.load(open(out)))
        else:
            errors.append(f"shard wrote nothing: {out}")
        for f in (out, out + ".log"):
            if os.path.exists(f) and p.returncode == 0:
                os.remove(f)
    return results, errors


def run_check(spec, tier, verif_seed):
    t0 = time.time()
    cfg = dict(spec.tiers[tier])
    if os.environ.get("VERIF_RUNS"):
        cfg["runs"] = int(os.environ["VERIF_RUNS"])
    if os.environ.get("VERIF_BUDGET_S"):
        cfg["budget_s"] = float(os.environ["VERIF_BUDGET_S"])
    ncpu = os.cpu_count() or 1
    nshards = max(1, min(16, ncpu, cfg["runs"]))
    if os.environ.get("VERIF_SHARDS"):
        nshards = int(os.environ["VERIF_SHARDS"])
    wall_cap = cfg.get("wall_cap", cfg["budget_s"] * 3 + 120)
    results, errors = spawn_shards(spec.prop, tier, verif_seed, nshards, cfg["runs"], cfg["budget_s"], wall_cap)
    for r in results:
        for he in r["harness_errors"]:
            errors.append(f"run {he['run']} seed {he['seed']}: {he['error']}")

    # determinism sample: re-run the first few runs in another interpreter under another hash seed
    det = dict(sampled=0, mismatches=0)
    nd = min(spec.determinism_sample, cfg["runs"])
    if nd and not errors:
        ids = list(range(nd))
        a, ea = spawn_shards(spec.prop, tier, verif_seed, 1, cfg["runs"], cfg["budget_s"], wall_cap, only_runs=ids, tag="detA")
        b, eb = spawn_shards(spec.prop, tier, verif_seed, 1, cfg["runs"], cfg["budget_s"], wall_cap, only_runs=ids,
                             extra_env={"PYTHONHASHSEED": "12345"}, tag="detB")
        errors += ea + eb
        if a and b:
            da, db = a[0]["digests"], b[0]["digests"]
            det["sampled"] = len(da)
            det["mismatches"] = sum(1 for k in da if da[k] != db.get(k))
            if det["mismatches"]:
                errors.append(f"determinism self-test failed: {[(k, da[k][:8], db.get(k, '')[:8]) for k in da if da[k] != db.get(k)]}")

    # aggregate
    evaluations = sum(r["evaluations"] for r in results)
    rejected = sum(r["rejected"] for r in results)
    counters = {}
    nontriv = set()
    samples = []
    vios = []
    vcounts = {}
    for r in sorted(results, key=lambda r: r["shard"]):
        for k, v in r["counters"].items():
            counters[k] = counters.get(k, 0) + v
        nontriv.update(r["nontrivial_digests"])
        samples += r["samples"]
        vios += r["violations"]
        for k, v in r["violation_counts"].items():
            vcounts[k] = vcounts.get(k, 0) + v
    known = load_known(spec.prop)
    by_key = {}
    for v in sorted(vios, key=lambda v: v["run"]):
        by_key.setdefault(vkey(v["violation"]), v)

    out_lines = []
    n_unlisted = 0
    replays = []
    os.makedirs(os.path.join(env.VERIF_DIR, "replays"), exist_ok=True)
    max_reported = int(os.environ.get("VERIF_MAX_REPORTED", 4))
    skipped = []
    # report the keys seen in the earliest runs first
    for key in sorted(by_key, key=lambda k: (by_key[k]["run"], k)):
        v = by_key[key]
        if key in known:
            out_lines.append(f"KNOWN-FINDING: property={spec.prop} {key} ({vcounts.get(key, 0)} plans) {known[key].get('what', '')}")
            continue
        n_unlisted += 1
        if n_unlisted > max_reported:
            skipped.append(key)
            continue
        plan = v["plan"]
        env.import_kappadata()
        plan, n_shrink = shrink(spec, plan, key)
        out = safe_execute(spec, plan)
        viol = next((x for x in out.violations if vkey(x) == key), None)
        if viol is None:  # the shrunk plan must still fail; fall back to the original
            plan = v["plan"]
            out = safe_execute(spec, plan)
            viol = next((x for x in out.violations if vkey(x) == key), v["violation"])
        d = out.digest
        path = os.path.join(env.VERIF_DIR, "replays", f"{spec.prop}-{v['seed']}-{d[:8]}.json")
        with open(path, "w") as f:
            json.dump(dict(property=spec.prop, key=key, seed=v["seed"], run=v["run"], verif_seed=verif_seed, tier=tier,
                           plan=plan, violation=viol, digest=d, shrink_executions=n_shrink,
                           plans_with_this_key=vcounts.get(key, 0), repo=repo_state()), f, indent=1, sort_keys=True)
        # verify in a fresh interpreter that the file replays exactly
        rp = subprocess.run([env.PYTHON, "-B", os.path.join(env.VERIF_DIR, "simkit", "main.py"), spec.prop, "--replay", path],
                            capture_output=True, text=True, env=env.child_env(_KD_VERIF_REEXEC="1"), cwd=env.VERIF_DIR, timeout=600)
        if rp.returncode == EXIT_VIOLATION and f"digest={d}" in rp.stdout:
            out_lines.append(f"VIOLATION property={spec.prop} replay={path}")
            out_lines.append(f"  key={key} plans={vcounts.get(key, 0)} detail={viol['detail'][:300]}")
            replays.append(path)
        elif _prelude_replay(spec, v, key, verif_seed, tier, nshards, path):
            # the plan alone does not fail in a fresh interpreter: the library carried state over from EARLIER, independent plans of
            # the same process.  The replay file then holds those earlier plans as a prelude (minimised) followed by the failing one.
            out_lines.append(f"VIOLATION property={spec.prop} replay={path}")
            out_lines.append(f"  key={key} plans={vcounts.get(key, 0)} (needs state left behind by earlier plans in the same process; "
                             f"replay file carries them as prelude) detail={v['violation']['detail'][:240]}")
            replays.append(path)
        else:
            errors.append(f"violation {key} did not replay exactly from {path}: exit={rp.returncode} out={rp.stdout[-500:]} err={rp.stderr[-500:]}")

    if skipped:
        out_lines.append(f"NOTE: {len(skipped)} further unlisted violation keys were not minimised: {skipped[:20]}")
    wall = time.time() - t0
    cov = dict(
        evaluations=evaluations,
        distinct_nontrivial=len(nontriv),
        rule=spec.rule,
        samples=samples[:3],
        rejected_plans=rejected,
        counters=dict(sorted(counters.items())),
        runs_per_hour=int(evaluations / max(wall, 1e-9) * 3600),
        shards=nshards,
        stopped_by_budget=any(r["stopped_by_budget"] for r in results),
        determinism_sample=det,
        components=spec.components,
        violation_keys={k: vcounts[k] for k in sorted(vcounts)},
        known_findings_matched=sorted(k for k in by_key if k in known),
        repo=repo_state(),
    )
    soft_errors = []
    try:
        cov.update(spec.extra_evidence(tier, verif_seed) or {})
    except Exception as e:  # stub validation runs the library too: on a broken tree it may fail because of the breakage
        msg = "extra_evidence: " + "".join(traceback.format_exception(type(e), e, e.__traceback__))[-2000:]
        (soft_errors if replays else errors).append(msg)
        cov["stub_validation_error"] = msg[-600:]
    if errors:
        cov["harness_errors"] = errors[:5]
    evidence = dict(property_id=spec.prop, tier=tier, seed=int(verif_seed), level=spec.level, coverage=cov,
                    assumptions=list(spec.assumptions), wall_s=round(wall, 2), violations=n_unlisted)
    # the official evidence file describes /repo itself; runs against another tree (mutants, seeded changes) write elsewhere
    ev_dir = os.path.join(env.VERIF_DIR, "evidence") if os.path.realpath(env.repo_dir()) == "/repo" \
        else os.path.join(env.VERIF_DIR, ".work", "evidence_other_tree")
    if os.environ.get("VERIF_EVIDENCE_DIR"):  # soak runs keep their reports apart from the official evidence
        ev_dir = os.environ["VERIF_EVIDENCE_DIR"]
    os.makedirs(ev_dir, exist_ok=True)
    with open(os.path.join(ev_dir, f"{spec.prop}.json"), "w") as f:
        json.dump(evidence, f, indent=1, sort_keys=True)
    for l in out_lines:
        print(l)
    print(f"{spec.prop} tier={tier} seed={verif_seed} evaluations={evaluations} distinct_nontrivial={len(nontriv)} "
          f"rejected={rejected} unlisted_violation_keys={n_unlisted} wall={wall:.1f}s")
    if errors:
        for e in errors[:5]:
            print("HARNESS-ERROR:", e)
        return EXIT_HARNESS
    if evaluations == 0:
        print("HARNESS-ERROR: nothing was evaluated")
        return EXIT_HARNESS
    return EXIT_VIOLATION if replays else EXIT_OK


def _prelude_replay(spec, v, key, verif_seed, tier, nshards, path):
    """try to reproduce a violation that needs earlier plans of the same shard: run k predecessors first (k doubling), then
    minimise the prelude; writes the replay file and verifies it in a fresh interpreter"""
    run = v["run"]
    preds = list(range(run % nshards, run, nshards))
    if not preds:
        return False
    main_py = os.path.join(env.VERIF_DIR, "simkit", "main.py")

    def attempt(prelude_runs):
        data = dict(property=spec.prop, key=key, seed=v["seed"], run=run, verif_seed=verif_seed, tier=tier, plan=v["plan"],
                    prelude_runs=prelude_runs, violation=v["violation"], digest=None, repo=repo_state())
        with open(path, "w") as f:
            json.dump(data, f, indent=1, sort_keys=True)
        rp = subprocess.run([env.PYTHON, "-B", main_py, spec.prop, "--replay", path], capture_output=True, text=True,
                            env=env.child_env(_KD_VERIF_REEXEC="1", VERIF_SEED=verif_seed), cwd=env.VERIF_DIR, timeout=900)
        return rp.returncode == EXIT_VIOLATION

    k = 1
    found = None
    while k <= len(preds) * 2:
        cand = preds[-min(k, len(preds)):]
        if attempt(cand):
            found = cand
            break
        if k >= len(preds):
            break
        k *= 4
    if found is None:
        return False
    # greedy minimisation of the prelude
    i = 0
    budget = 24
    while i < len(found) and budget > 0:
        cand = found[:i] + found[i + 1:]
        budget -= 1
        if cand and attempt(cand):
            found = cand
        else:
            i += 1
    return attempt(found)


def replay(spec, path):
    data = json.load(open(path))
    for r in data.get("prelude_runs") or []:
        # earlier, independent plans of the same process (regenerated from the recorded VERIF_SEED); their own verdicts are ignored
        try:
            pl = spec.gen_plan(derive_seed(data.get("verif_seed", 0), spec.prop, r), data.get("tier", "quick"))
            pl["_seed"] = derive_seed(data.get("verif_seed", 0), spec.prop, r)
            pl["_run"] = r
            safe_execute(spec, pl)
        except HarnessError:
            pass
    out = safe_execute(spec, data["plan"])
    d = out.digest
    key = data.get("key")
    hit = [v for v in out.violations if key is None or vkey(v) == key]
    if hit:
        print(f"VIOLATION property={spec.prop} replay={path}")
        print(f"  key={vkey(hit[0])} digest={d} digest_matches_file={d == data.get('digest')}")
        print(f"  detail={hit[0]['detail'][:1500]}")
        return EXIT_VIOLATION
    print(f"replay of {path}: no violation of {key} on this tree (digest={d}; other violations: {[vkey(v) for v in out.violations]})")
    return EXIT_OK

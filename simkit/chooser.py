"""seeded or replayed source of scheduling decisions"""
import random


class Chooser:
    """seeded or replayed source of scheduling decisions; records what it chose"""

    def __init__(self, seed=None, choices=None, weights=None):
        self.rng = random.Random(seed)
        self.replay = list(choices) if choices is not None else None
        self.trace = []
        self.weights = weights or {}

    def choose(self, options, label=""):
        """options: list of hashable, JSON-able labels; returns one of them"""
        assert options
        if self.replay is not None:
            c = self.replay.pop(0) if self.replay else None
            pick = c if c in options else options[0]
        elif len(options) == 1:
            pick = options[0]
        else:
            w = [self.weights.get(o, 1.0) for o in options]
            pick = self.rng.choices(options, weights=w)[0]
        self.trace.append(pick)
        return pick

#!/venv/bin/python
"""run the pinned suite of a tree (default /repo) with the guard OFF and compare with BASELINE.json's stable_pass list"""
import json, os, subprocess, sys, tempfile
import xml.etree.ElementTree as ET
repo = sys.argv[1] if len(sys.argv) > 1 else "/repo"
base = json.load(open("/root/.vp/BASELINE.json"))
with tempfile.TemporaryDirectory() as td:
    xml = os.path.join(td, "j.xml")
    env = {k: v for k, v in os.environ.items() if k not in ("KAPPADATA_VERIF",)}
    env["PYTHONPATH"] = repo
    p = subprocess.run(["/venv/bin/python", "-m", "pytest", "-q", "-p", "no:cacheprovider", "--timeout=900",
                        "--continue-on-collection-errors", f"--junitxml={xml}"], cwd=repo, env=env, capture_output=True, text=True)
    passed = set()
    for tc in ET.parse(xml).getroot().iter("testcase"):
        if not any(ch.tag in ("failure", "error", "skipped") for ch in tc):
            passed.add(f"{tc.get('classname')}::{tc.get('name')}")
want = set(base["stable_pass"])
missing = sorted(want - passed)
print(f"{repo}: passed {len(passed)}; stable_pass {len(want)}; stable tests now failing: {len(missing)}; newly passing: {len(passed - want)}")
for m in missing[:20]:
    print("  NOW FAILING:", m)
sys.exit(1 if missing else 0)

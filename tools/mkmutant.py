#!/usr/bin/env python3
"""mkmutant.py <PROP-name> <repo-relative file> <old> <new> [<file2> <old2> <new2> ...]: writes /verif/mutants/<PROP-name>.patch"""
import difflib, sys
name = sys.argv[1]
args = sys.argv[2:]
out = []
texts = {}
for i in range(0, len(args), 3):
    f, old, new = args[i:i + 3]
    old = old.encode().decode("unicode_escape"); new = new.encode().decode("unicode_escape")
    orig = open(f"/repo/{f}").read()
    cur = texts.get(f, orig)
    assert cur.count(old) >= 1, f"old string not found in {f}"
    texts[f] = cur.replace(old, new, 1)
for f, t in texts.items():
    s = open(f"/repo/{f}").read()
    out += list(difflib.unified_diff(s.splitlines(True), t.splitlines(True), f"a/{f}", f"b/{f}"))
open(f"/verif/mutants/{name}.patch", "w").write("".join(out))
print("".join(out))

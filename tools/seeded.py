#!/venv/bin/python
"""seeded.py <source dir with patch.diff/demo.py/notes.md> <id> <PROP> [extra check ids...]
Confirms a seeded change in a scratch worktree of /repo (outside /repo and /verif, removed afterwards):
  demo passes on the clean tree, patch applies, demo fails on the changed tree, pinned suite unchanged,
then runs the owning check (quick tier) against the changed tree and records everything in /verif/seeded/<id>/meta.json."""
import json, os, shutil, subprocess, sys, time
src, sid, prop = sys.argv[1], sys.argv[2], sys.argv[3]
extra = sys.argv[4:]
dst = f"/verif/seeded/{sid}"
os.makedirs(dst, exist_ok=True)
for f in ("patch.diff", "demo.py", "notes.md"):
    if os.path.abspath(src) != os.path.abspath(dst):
        shutil.copy(os.path.join(src, f), os.path.join(dst, f))
scratch = f"/tmp/sv_{sid}"
subprocess.run(["git", "-C", "/repo", "worktree", "remove", "--force", scratch], capture_output=True)
subprocess.run(["git", "-C", "/repo", "worktree", "add", "-q", "--detach", scratch, "HEAD"], check=True)
meta = dict(id=sid, property=prop, repo_head=subprocess.run(["git", "-C", "/repo", "rev-parse", "--short", "HEAD"], capture_output=True, text=True).stdout.strip())
try:
    env = dict(os.environ, PYTHONPATH=scratch)
    def demo():
        p = subprocess.run(["/venv/bin/python", os.path.join(dst, "demo.py")], env=env, cwd=scratch, capture_output=True, text=True, timeout=1800)
        return p.returncode, (p.stdout + p.stderr)[-400:]
    rc0, out0 = demo()
    ap = subprocess.run(["git", "-C", scratch, "apply", os.path.join(dst, "patch.diff")], capture_output=True, text=True)
    meta["patch_applies"] = ap.returncode == 0
    rc1, out1 = demo()
    meta["demo_exit_clean_tree"] = rc0
    meta["demo_exit_changed_tree"] = rc1
    meta["demo_tail_changed_tree"] = out1
    b = subprocess.run(["/verif/tools/baseline.py", scratch], capture_output=True, text=True)
    meta["pinned_suite"] = b.stdout.strip().splitlines()[0] if b.stdout else b.stderr[-300:]
    meta["pinned_suite_ok"] = b.returncode == 0
    meta["checks"] = {}
    for pid in [prop] + extra:
        t0 = time.time()
        logf = f"/verif/.work/seeded-{sid}-{pid}.log"
        os.makedirs("/verif/.work", exist_ok=True)
        e = dict(os.environ, VERIF_REPO=scratch)
        with open(logf, "w") as lf:
            rc = subprocess.run(["/verif/check", pid, "--tier", "quick"], env=e, cwd="/verif", stdout=lf, stderr=subprocess.STDOUT, timeout=3600).returncode
        lines = [l for l in open(logf).read().splitlines() if l.startswith("VIOLATION") or l.startswith("  key=") or l.startswith("HARNESS") or l.startswith(pid)]
        meta["checks"][pid] = dict(cmd=f"VERIF_REPO=<scratch worktree with patch> ./check {pid} --tier quick", exit=rc,
                                   verdict={0: "MISSED", 1: "CAUGHT", 2: "HARNESS-ERROR"}.get(rc, str(rc)), output=lines[:8], wall_s=round(time.time() - t0))
        os.remove(logf)
finally:
    subprocess.run(["git", "-C", "/repo", "worktree", "remove", "--force", scratch], capture_output=True)
    subprocess.run(["git", "-C", "/repo", "checkout", "--", "."], capture_output=True)
notes = open(os.path.join(dst, "notes.md")).read()
meta["needs_to_manifest"] = notes[:1500]
meta["confirmed"] = bool(meta.get("patch_applies") and meta.get("demo_exit_clean_tree") == 0 and meta.get("demo_exit_changed_tree") not in (0, None) and meta.get("pinned_suite_ok"))
json.dump(meta, open(os.path.join(dst, "meta.json"), "w"), indent=1)
print(json.dumps({k: meta[k] for k in ("id", "confirmed", "demo_exit_clean_tree", "demo_exit_changed_tree", "pinned_suite")}, indent=0))
for pid, c in meta["checks"].items():
    print(pid, c["verdict"], c["output"][:3])

import difflib, sys
name=sys.argv[1]; args=sys.argv[2:]; texts={}
for i in range(0,len(args),3):
    f,old,new=args[i:i+3]; old=old.encode().decode("unicode_escape"); new=new.encode().decode("unicode_escape")
    cur=texts.get(f, open(f"/repo/{f}").read()); assert old in cur, (f, old[:40]); texts[f]=cur.replace(old,new,1)
out=[]
for f,t in texts.items():
    s=open(f"/repo/{f}").read(); out+=list(difflib.unified_diff(s.splitlines(True), t.splitlines(True), f"a/{f}", f"b/{f}"))
open(f"/verif/refactors/{name}.patch","w").write("".join(out))

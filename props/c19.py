"""C19 - in-memory cache is transparent for every access history (simshared engine).

R reader processes share one simulated Manager dict (module attribute `Manager` of
kappadata.caching.shared_dict_dataset rebound to SimManager; values are pickled on store and unpickled on load
like a real DictProxy).  Readers are real threads but only the baton holder runs; every dict operation, every
base-dataset load and every transform call is a yield point at which the seeded scheduler picks the next reader.
`dispose()` is one more generated operation (fault F10: clear at an arbitrary point).
The history is a list of invoke / load / transform / return events; the list position is the global event
sequence number.
"""
import copy
import pickle

from simkit import core

# harness-side globals (module level so that pickled copies of Base/Transform keep pointing at them)
LOG = []
SCHED = [None]


def _yield(label=None):
    s = SCHED[0]
    if s is not None:
        s.yield_point(label)


def _who():
    s = SCHED[0]
    return s.current if s is not None and s.current is not None else "seq"


# ----------------------------------------------------------------------------------------------
# simulated Manager().dict()
# ----------------------------------------------------------------------------------------------
class SimDict:
    """the whole DictProxy surface; each call is one round trip to the (simulated) manager process"""
    ops = 0

    def __init__(self, manager=None):
        self._d = {}
        self._manager = manager

    def _rt(self, name):
        _yield(name)
        SimDict.ops += 1
        if self._manager is not None and not self._manager.alive:
            # the server process behind this proxy is gone
            raise BrokenPipeError(32, "Broken pipe (simulated manager process was shut down)")

    def __contains__(self, k):
        self._rt("contains")
        return k in self._d

    def __getitem__(self, k):
        self._rt("getitem")
        return pickle.loads(self._d[k])

    def __setitem__(self, k, v):
        data = pickle.dumps(v)  # serialised in the caller, before the round trip
        self._rt("setitem")
        self._d[k] = data

    def __delitem__(self, k):
        self._rt("delitem")
        del self._d[k]

    def __len__(self):
        self._rt("len")
        return len(self._d)

    def __iter__(self):
        self._rt("iter")
        return iter(list(self._d))

    def get(self, k, default=None):
        self._rt("get")
        return pickle.loads(self._d[k]) if k in self._d else default

    def setdefault(self, k, default=None):
        data = pickle.dumps(default)
        self._rt("setdefault")
        if k not in self._d:
            self._d[k] = data
        return pickle.loads(self._d[k])

    def pop(self, k, *default):
        self._rt("pop")
        if k in self._d:
            return pickle.loads(self._d.pop(k))
        if default:
            return default[0]
        raise KeyError(k)

    def update(self, *a, **kw):
        items = dict(*a, **kw)
        data = {k: pickle.dumps(v) for k, v in items.items()}
        self._rt("update")
        self._d.update(data)

    def keys(self):
        self._rt("keys")
        return list(self._d)

    def values(self):
        self._rt("values")
        return [pickle.loads(v) for v in self._d.values()]

    def items(self):
        self._rt("items")
        return [(k, pickle.loads(v)) for k, v in self._d.items()]

    def clear(self):
        self._rt("clear")
        self._d.clear()

    def copy(self):
        self._rt("copy")
        return {k: pickle.loads(v) for k, v in self._d.items()}

    # a proxy pickles to a reference to the same server-side dict
    def __reduce__(self):
        return (_same, (id(self),))


_PROXIES = {}


def _same(i):
    return _PROXIES[i]


class SimManager:
    """stands for the manager server process: proxies die with it"""

    def __init__(self, *a, **kw):
        self.alive = True

    def dict(self, *a, **kw):
        d = SimDict(manager=self)
        _PROXIES[id(d)] = d
        if a or kw:
            d.update(*a, **kw)
        return d

    def start(self):
        self.alive = True

    def shutdown(self):
        self.alive = False

    def __enter__(self):
        return self

    def __exit__(self, *a):
        self.shutdown()

    def __reduce__(self):
        raise TypeError("Pickling a Manager object is not possible (as with multiprocessing.managers.SyncManager)")


# ----------------------------------------------------------------------------------------------
# base dataset / payloads / transforms
# ----------------------------------------------------------------------------------------------
def payload(kind, i):
    import torch
    if kind == "falsy":
        # legal picklable samples that are falsy or None: a cache must not mistake them for "not cached"
        return [None, 0, "", (), False, 0.0, b""][i % 7]
    if kind == "int":
        return 1000 + i
    if kind == "tuple":
        return ("v", i, (i, i + 1))
    if kind == "dict":
        return {"i": i, "l": [i, i * 2], "s": f"s{i}"}
    if kind == "list":
        return [i, [i], "x"]
    if kind == "bytes":
        return bytes([i % 256]) * (i % 5 + 1)
    if kind == "tensor":
        return torch.arange(4, dtype=torch.float32) + i
    if kind == "mixed":
        return (torch.full((2,), float(i)), {"k": [i]}, i)
    raise ValueError(kind)


class Base:
    def __init__(self, kind, n):
        self.kind = kind
        self.n = n

    def __len__(self):
        return self.n

    FAIL_AT = [set()]  # global load numbers (positions among all loads of the run) at which the storage fails once

    def __getitem__(self, i):
        LOG.append(["load", _who(), int(i)])
        n_loads = sum(1 for e in LOG if e[0] == "load")
        _yield("load")  # a slow load: others may run while the sample is being read
        if n_loads in Base.FAIL_AT[0]:
            LOG.append(["load-failed", _who(), int(i)])
            raise InjectedLoadError(5, f"injected read error while loading sample {int(i)}")
        return payload(self.kind, int(i))


class InjectedLoadError(OSError):
    pass


class Transform:
    """post-cache transform; 'inplace' mutates its argument (where the payload is mutable) and returns it"""

    def __init__(self, mode):
        self.mode = mode

    def __call__(self, s):
        import torch
        LOG.append(["tf", _who()])
        _yield("transform")
        if self.mode == "wrap":
            return ("T", s)
        # in place
        if isinstance(s, list):
            s.append("T")
            return s
        if isinstance(s, dict):
            s["T"] = 1
            return s
        if torch.is_tensor(s):
            s.add_(1)
            return s
        if isinstance(s, tuple) and s and torch.is_tensor(s[0]):
            s[0].mul_(2)
            s[1]["k"].append("T")
            return s
        return ("T", s)


def expected_value(kind, tf_mode, i, offset=0):
    v = payload(kind, i)
    if tf_mode is None:
        return v
    if tf_mode == "kd":
        return ("KD", offset, v)
    saved = SCHED[0], list(LOG)
    SCHED[0] = None
    try:
        return Transform(tf_mode)(v)
    finally:
        SCHED[0] = saved[0]
        LOG[:] = saved[1]


KINDS = ["int", "tuple", "dict", "list", "bytes", "tensor", "mixed", "falsy"]


class Spec(core.PropSpec):
    prop = "C19"
    level = "exploration"
    rule = ("plans = R in 1..4 readers sharing one simulated manager dict, <=5 keys, payload kind (int/tuple/dict/list/bytes/"
            "tensor/mixed), post-cache transform none/pure/in-place, per reader a list of get(i) (repeats, any order) and dispose() operations, and a seeded baton schedule over every dict round trip / load / transform; "
            "single-reader (sequential) and multi-reader plans are separate run classes; non-trivial = a dispose happened and "
            "some key was read both before and after it, and for multi-reader plans at least two readers interleaved inside "
            "an operation; distinct = distinct SHA-256 of the invoke/load/transform/return history")
    assumptions = ["the Manager server executes each dict call atomically (what multiprocessing guarantees); values are pickled per call",
                   "the base dataset is immutable, so a stale cache entry is only observable through the load log"]
    components = {"real": ["kappadata.caching.SharedDictDataset", "kappadata.caching.cached_dataset.CachedDataset"],
                  "stub": ["multiprocessing.Manager / DictProxy (SimManager/SimDict, validated against a real Manager on sequential plans)",
                           "reader processes (baton threads)"]}
    tiers = {"quick": dict(runs=24000, budget_s=40), "thorough": dict(runs=600000, budget_s=600)}

    def gen_plan(self, seed, tier):
        st = core.Streams(seed)
        rw = st("world")
        big = tier != "quick"
        R = rw.choice([1, 1, 2, 2, 3, 4] + ([5, 6] if big else []))
        n = rw.randint(1, 8 if big else 5)
        ro = st("ops")
        readers = []
        for r in range(R):
            ops = []
            for _ in range(ro.randint(1, 14 if big else 8)):
                r_ = ro.random()
                if r_ < 0.08:
                    ops.append(["drop_copy", ro.choice(["pickle", "copy"])])
                elif r_ < 0.26:
                    ops.append(["dispose"])
                else:
                    i = ro.randrange(n)
                    ops.append(["get", i])
            readers.append(ops)
        # the indices behind the key numbers: dense 0..n-1, or sparse / large ones (hash- or modulo-style key handling shows up)
        pool = [0, 1, 2, 3, 5, 7, 8, 16, 255, 256, 1000, 1024, 4099, 65536, 2 ** 31 + 5, 10 ** 12 + 1]
        keys = list(range(n)) if rw.random() < 0.6 else sorted(rw.sample(pool, n))
        tf = rw.choice([None, "wrap", "inplace", "inplace", "kd"])
        if tf == "kd":
            # the transform's parameter is changed between accesses (like scale_strength on a scheduled transform)
            for ops in readers:
                for k in range(len(ops)):
                    if ro.random() < 0.25:
                        ops.insert(k, ["retune", ro.choice([0, 10, 50, 100])])
        kills = [[ro.randrange(1, R), ro.randint(1, 12)]] if R > 1 and ro.random() < 0.25 else []
        fail_at = sorted({ro.randint(1, 8) for _ in range(ro.randint(1, 2))}) if ro.random() < 0.2 else []
        re_ = st("earlier")
        # state surviving from an earlier, unrelated use of the library in the same process: another cached dataset was built, used
        # and dropped before (its memory - and with it its id() - is free again)
        earlier = dict(n_gets=re_.randint(0, n), keep_cache_object=re_.random() < 0.3) if re_.random() < 0.2 else None
        return dict(R=R, n=n, keys=keys, kind=rw.choice(KINDS), tf=tf, readers=readers, kills=kills, fail_at=fail_at,
                    sched_seed=st("sched").getrandbits(32), choices=None, earlier_use=earlier)

    def shrink_candidates(self, plan):
        if plan.get("choices") is None and len(plan["readers"]) > 1:
            # pin the realised schedule so that removing operations perturbs the interleaving as little as possible
            core.reset_world()
            _, trace = self._run(plan)
            yield dict(plan, choices=trace)
        if plan["tf"] is not None:
            yield dict(plan, tf=None)
        if plan["kind"] != "int":
            yield dict(plan, kind="int")
        if plan.get("kills"):
            yield dict(plan, kills=[])
        if plan.get("fail_at"):
            yield dict(plan, fail_at=[])
        if plan.get("earlier_use"):
            yield dict(plan, earlier_use=None)
        yield from core.generic_candidates(plan, [["readers"], ["readers", "*"], ["choices"]], [(["n"], 1)])

    def execute(self, plan):
        out, _ = self._run(plan)
        return out

    def _run(self, plan):
        import kappadata.caching.shared_dict_dataset as sdd
        from simkit.baton import BatonScheduler
        from simkit.chooser import Chooser
        from simkit.deep import deep_diff, h
        out = core.Outcome()
        n, kind, tf = plan["n"], plan["kind"], plan["tf"]
        keys = plan.get("keys") or list(range(n))
        if len(keys) < n:
            keys = list(range(n))
        readers = [[[op[0], keys[op[1]]] if op[0] == "get" and 0 <= op[1] < n else list(op) for op in ops] for ops in plan["readers"]]
        R = len(readers)
        if R == 0 or n < 1 or any(op[0] == "get" and not (0 <= op[1] < n) for ops in plan["readers"] for op in ops):
            out.rejected = True
            return out, []
        saved = sdd.Manager
        sdd.Manager = SimManager
        del LOG[:]
        _PROXIES.clear()
        Base.FAIL_AT[0] = set(plan.get("fail_at") or [])
        results = {}
        try:
            import os as _os0
            _real = _os0.getpid
            _os0.getpid = lambda: 40000
            try:
                tf_obj = None
                if tf == "kd":
                    from .simdata import OffsetKDTransform

                    def _on_call():
                        LOG.append(["tf", _who()])
                        _yield("transform")

                    OffsetKDTransform.on_call[0] = _on_call
                    tf_obj = OffsetKDTransform(0)
                elif tf:
                    tf_obj = Transform(tf)
                eu = plan.get("earlier_use")
                if eu:
                    other_kind = KINDS[(KINDS.index(kind) + 1) % len(KINDS)]
                    saved_fail = Base.FAIL_AT[0]
                    Base.FAIL_AT[0] = set()
                    old_base = Base(other_kind, max(keys) + 1)
                    old_ds = sdd.SharedDictDataset(old_base)
                    for k_ in keys[:eu["n_gets"]]:
                        old_ds[k_]
                    keep = old_ds if eu.get("keep_cache_object") else None  # the wrapper may still be referenced; its base is not
                    if keep is not None:
                        keep.dataset = None
                    del old_ds, old_base
                    import gc
                    gc.collect(1)  # the dropped objects are young: make their death (cycles!) a deterministic event of the plan
                    del LOG[:]
                    Base.FAIL_AT[0] = saved_fail
                    out.count("fault:earlier_unrelated_cache_in_same_process")
                ds = sdd.SharedDictDataset(Base(kind, max(keys) + 1), transform=tf_obj)
            except Exception as e:
                out.violate("C19:raises:" + type(e).__name__, "constructor", f"{type(e).__name__}: {e}")
                return out, []
            finally:
                _os0.getpid = _real
            # reader 0 is the process that created the dataset; the others hold pickled copies (own object, same proxy)
            views = [ds]
            for r in range(1, R):
                try:
                    views.append(pickle.loads(pickle.dumps(ds)))
                except Exception:
                    v = copy.copy(ds)
                    v.dataset = pickle.loads(pickle.dumps(ds.dataset))
                    views.append(v)

            offsets = [0] * R

            def make(r):
                def body():
                    for k, op in enumerate(readers[r]):
                        LOG.append(["inv", f"r{r}", k] + op)
                        _yield("invoke")
                        try:
                            if op[0] == "drop_copy":
                                # a second handle on the same cache (a copy sent to a short-lived helper, a task argument ...)
                                # is created and finalised: that is not a clear
                                import gc
                                tmp = pickle.loads(pickle.dumps(views[r])) if op[1] == "pickle" else copy.copy(views[r])
                                del tmp
                                gc.collect(0)  # young generation only: a full collection costs ~50 ms with torch loaded
                                results[(r, k)] = ("ok", None)
                                LOG.append(["ret", f"r{r}", k, None])
                            elif op[0] == "retune":
                                views[r].transform.scale_strength(op[1] / 100)
                                offsets[r] = op[1]
                                results[(r, k)] = ("ok", None)
                                LOG.append(["ret", f"r{r}", k, None])
                            elif op[0] == "get":
                                val = views[r][op[1]]
                                results[(r, k)] = ("ok", val, offsets[r])
                                LOG.append(["ret", f"r{r}", k, h(val)])
                            else:
                                views[r].dispose()
                                results[(r, k)] = ("ok", None)
                                LOG.append(["ret", f"r{r}", k, None])
                        except Exception as e:
                            own = []
                            for ev in reversed(LOG):
                                if ev[1:2] == [f"r{r}"]:
                                    own.append(ev[0])
                                    if ev[0] == "inv":
                                        break
                            if core.caused_by(e, InjectedLoadError) and "load-failed" in own:
                                # the load of THIS access failed (a later access raising a remembered error is not this case)
                                results[(r, k)] = ("ioerr", None)
                                LOG.append(["ioerr", f"r{r}", k])
                            else:
                                results[(r, k)] = ("exc", e)
                                LOG.append(["exc", f"r{r}", k, type(e).__name__])
                        # (a killed reader leaves via TaskDied, a BaseException: its operation never returns)
                return body

            sched = BatonScheduler(Chooser(seed=plan["sched_seed"], choices=plan.get("choices")))
            for kr, kn in (plan.get("kills") or []):
                if 1 <= kr < R:  # reader 0 owns the manager; killing it is a different story (the server would go too)
                    sched.kill_at[f"r{kr}"] = kn
            for r in range(R):
                sched.spawn(f"r{r}", make(r))
            SCHED[0] = sched
            import os as _os
            real_getpid = _os.getpid
            base_pid = 40000

            def sim_getpid():  # every reader is its own process; reader 0 is the creating process
                cur = sched.current
                return base_pid + (int(cur[1:]) if cur else 0)

            _os.getpid = sim_getpid
            try:
                sched.run()
            finally:
                _os.getpid = real_getpid
                SCHED[0] = None
        finally:
            sdd.Manager = saved
        hist = list(LOG)
        out.events = hist
        out.ev("sched", sched.trace)
        trace = list(sched.trace)
        self._oracle(dict(plan, readers=readers), hist, results, out, deep_diff)
        # coverage bookkeeping
        switches = sum(1 for a, b in zip(trace, trace[1:]) if a != b)
        out.count("sched:steps", len(trace))
        out.count("sched:context_switches", switches)
        out.count("logical:operations", sum(len(o) for o in readers))
        n_disp = sum(1 for ops in readers for op in ops if op[0] == "dispose")
        if tf == "kd":
            out.tags.append("kd-transform-with-retuning")
        if sched.killed:
            out.count("fault:reader_process_killed_mid_operation", len(sched.killed))
        out.count("fault:dispose", n_disp)
        out.tags.append("multi-reader" if R > 1 else "single-reader")
        # did a dispose land between another reader's check and its read/store?
        inside = self._dispose_inside_get(hist)
        if inside:
            out.count("fault:dispose_inside_other_readers_get", inside)
        keys_before_after = self._read_before_and_after_dispose(hist, 10 ** 15)
        out.nontrivial = n_disp > 0 and keys_before_after and (R == 1 or switches >= 2)
        return out, trace

    @staticmethod
    def _dispose_inside_get(hist):
        open_get = {}
        cnt = 0
        for e in hist:
            if e[0] == "inv" and e[3] == "get":
                open_get[e[1]] = True
            elif e[0] in ("ret", "exc"):
                open_get.pop(e[1], None)
            if e[0] == "inv" and e[3] == "dispose" and any(r != e[1] for r in open_get):
                cnt += 1
        return cnt

    @staticmethod
    def _read_before_and_after_dispose(hist, n):
        seen_before, disposed = set(), False
        for e in hist:
            if e[0] == "inv" and e[3] == "get":
                k = e[4] % n
                if disposed and k in seen_before:
                    return True
                if not disposed:
                    seen_before.add(k)
            if e[0] == "inv" and e[3] == "dispose" and seen_before:
                disposed = True
        return False

    def _oracle(self, plan, hist, results, out, deep_diff):
        n, kind, tf = plan["n"], plan["kind"], plan["tf"]
        R = len(plan["readers"])
        site = "multi-reader" if R > 1 else "single-reader"
        # ---- collect accesses -----------------------------------------------------------------
        acc = {}  # (reader, k) -> dict(inv, ret, op, idx, loads, tfs)
        cur = {}
        for pos, e in enumerate(hist):
            if e[0] == "inv":
                a = dict(reader=e[1], k=e[2], op=e[3], idx=e[4] if e[3] == "get" else None, inv=pos, ret=None, loads=[], tfs=0, exc=None)
                if e[3] in ("retune", "drop_copy"):
                    a["op"] = "retune"
                acc[(e[1], e[2])] = a
                cur[e[1]] = a
            elif e[0] == "load":
                if e[1] in cur:
                    cur[e[1]]["loads"].append((pos, e[2]))
            elif e[0] == "tf":
                if e[1] in cur:
                    cur[e[1]]["tfs"] += 1
            elif e[0] == "load-failed":
                if e[1] in cur and cur[e[1]]["loads"]:
                    cur[e[1]]["loads"].pop()  # this load produced nothing that could have been stored
                    cur[e[1]]["failed"] = True
            elif e[0] == "ioerr":
                a = cur.pop(e[1])
                a["ret"] = None
                a["exc"] = "ioerr"
            elif e[0] in ("ret", "exc"):
                a = cur.pop(e[1])
                a["ret"] = pos
                if e[0] == "exc":
                    a["exc"] = e[3]
        gets = [a for a in acc.values() if a["op"] == "get"]
        disposes = [a for a in acc.values() if a["op"] == "dispose"]
        # ---- (1) value transparency, no exception; (2) transform exactly once ---------------------
        for (r, k), res_ in sorted(results.items()):
            status, val = res_[0], res_[1]
            off = res_[2] if len(res_) > 2 else 0
            op = plan["readers"][r][k]
            if status == "ioerr":
                out.count("fault:transient_load_error")
                continue
            if status == "exc":
                what = op[0]
                out.violate(f"C19:raises:{type(val).__name__}", f"{what},{site}", f"reader r{r} op {k} {op}: {type(val).__name__}: {val}")
                continue
            if op[0] != "get":
                continue
            exp = expected_value(kind, tf, op[1], off)
            d = deep_diff(val, exp)
            if d:
                out.violate("C19:wrong-value", f"tf={tf},{site}", f"reader r{r} op {k} get({op[1]}): {d}")
            a = acc[(f"r{r}", k)]
            want_tf = 0 if tf is None else 1
            if a["tfs"] != want_tf:
                out.violate("C19:transform-count", f"tf={tf},{site}", f"reader r{r} op {k} get({op[1]}): transform ran {a['tfs']} times")
            for _, li in a["loads"]:
                if li != op[1]:
                    out.violate("C19:loads-foreign-sample", site, f"reader r{r} op {k} get({op[1]}) loaded index {li}")
        ok_gets = [a for a in gets if a["exc"] is None and a["ret"] is not None]
        # ---- (3) at most once between clears ---------------------------------------------------------
        for a in ok_gets:
            if not a["loads"]:
                continue
            if len(a["loads"]) > 1:
                out.violate("C19:loaded-more-than-once", site, f"{a['reader']} op {a['k']} get({a['idx']}) loaded {len(a['loads'])} times within one access")
            for b in ok_gets:
                if b is a or b["idx"] != a["idx"] or b["ret"] >= a["inv"]:
                    continue
                # b proves idx was stored; did any dispose overlap [inv(b), ret(a)] ?
                if not any(c["inv"] <= a["ret"] and (c["ret"] is None or c["ret"] >= b["inv"]) for c in disposes):
                    out.violate("C19:loaded-more-than-once", site,
                                f"get({a['idx']}) by {a['reader']} (events {a['inv']}..{a['ret']}) loaded although {b['reader']}'s get "
                                f"({b['inv']}..{b['ret']}) had completed and no dispose ran in between")
                    break
        # ---- (4) a clear evicts ---------------------------------------------------------------------
        done_disposes = [c for c in disposes if c["exc"] is None and c["ret"] is not None]
        for a in ok_gets:
            if a["loads"]:
                continue
            prior = [c for c in done_disposes if c["ret"] < a["inv"]]
            if not prior:
                # no load and no clear before: somebody must have loaded it at all
                if not any(b is not a and b["idx"] == a["idx"] and b["loads"] and b["inv"] < a["ret"] for b in gets):
                    out.violate("C19:value-from-nowhere", site, f"get({a['idx']}) by {a['reader']} returned without any load of that index")
                continue
            c = max(prior, key=lambda c: c["inv"])
            if not any(b is not a and b["idx"] == a["idx"] and b["loads"] and b["inv"] < a["ret"] and
                       (b["ret"] is None or b["ret"] > c["inv"]) for b in gets):
                out.violate("C19:entry-survived-clear", site,
                            f"get({a['idx']}) by {a['reader']} (events {a['inv']}..{a['ret']}) did not load although dispose by "
                            f"{c['reader']} ({c['inv']}..{c['ret']}) completed before and nobody re-loaded the sample since")
        # ---- sequential form: exactly one load per era in which the key is accessed -----------------
        if R == 1 and not any(a["exc"] for a in acc.values()) and not plan.get("fail_at"):
            era_loaded = set()
            for a in sorted(acc.values(), key=lambda a: a["inv"]):
                if a["op"] == "retune":
                    continue
                if a["op"] == "dispose":
                    era_loaded = set()
                    continue
                key = a["idx"]  # the cache key is the index as given
                nl = len(a["loads"])
                if key in era_loaded and nl:
                    out.violate("C19:loaded-more-than-once", site, f"sequential: get({key}) loaded again in the same era")
                if key not in era_loaded and nl != 1:
                    out.violate("C19:entry-survived-clear" if nl == 0 else "C19:loaded-more-than-once", site,
                                f"sequential: first get({key}) of an era performed {nl} loads")
                era_loaded.add(key)

    def extra_evidence(self, tier, seed):
        return {"stub_validation": validate_against_real_manager(40 if tier == "quick" else 400, seed)}


def validate_against_real_manager(n_plans, seed):
    """sequential plans against a real multiprocessing.Manager dict and against SimDict: same values, same load log"""
    import random
    from simkit import env
    env.import_kappadata()
    import kappadata.caching.shared_dict_dataset as sdd
    from simkit.deep import deep_diff
    rng = random.Random(f"c19-real/{seed}")
    compared = 0
    mism = []
    real_manager = sdd.Manager
    started = []

    def recording_manager():
        m = real_manager()
        started.append(m)
        return m

    try:
        for p in range(n_plans):
            n = rng.randint(1, 4)
            kind = rng.choice(KINDS)
            tf = rng.choice([None, "wrap", "inplace"])
            ops = [["dispose"] if rng.random() < 0.2 else ["get", rng.randrange(n)] for _ in range(rng.randint(1, 10))]
            runs = []
            for which in ("real", "sim"):
                sdd.Manager = recording_manager if which == "real" else SimManager
                del LOG[:]
                try:
                    ds = sdd.SharedDictDataset(Base(kind, n), transform=Transform(tf) if tf else None)
                    vals = []
                    for op in ops:
                        vals.append(ds[op[1]] if op[0] == "get" else ds.dispose())
                    runs.append((vals, list(LOG)))
                except Exception as e:
                    runs.append(([f"raised {type(e).__name__}: {e}"], list(LOG)))
                finally:
                    sdd.Manager = real_manager
                    ds = None
                    while started:  # the server process must not outlive this function
                        try:
                            started.pop().shutdown()
                        except Exception:
                            pass
            compared += 1
            if runs[0][1] != runs[1][1] or deep_diff(runs[0][0], runs[1][0]):
                mism.append(dict(plan=ops, kind=kind, tf=tf))
    finally:
        import multiprocessing
        for ch in multiprocessing.active_children():
            ch.terminate()
    return dict(sequential_plans_compared_with_real_Manager=compared, mismatches=len(mism), examples=mism[:2])


SPEC = Spec()

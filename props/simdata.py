"""harness-side datasets and collators (module level so that they pickle into simulated workers)"""
import torch
from torch.utils.data import default_collate
from torch.utils.data import get_worker_info

from kappadata.datasets import KDDataset


class IdDataset(KDDataset):
    """root dataset whose samples carry their identity: x[i] = [dataset id, i, dataset_len seen by the worker hook, worker id]"""

    def __init__(self, ds_id, size, **kw):
        super().__init__(**kw)
        self.ds_id = ds_id
        self.size = size
        self.hook_dataset_len = -1
        self.hook_calls = 0

    def __len__(self):
        return self.size

    def worker_init_fn(self, rank, **kwargs):
        self.hook_dataset_len = kwargs.get("dataset_len", -2)
        self.hook_calls += 1
        super().worker_init_fn(rank, **kwargs)

    def getitem_x(self, idx, ctx=None):
        assert 0 <= idx < self.size, f"index {idx} out of range for dataset {self.ds_id} of size {self.size}"
        wi = get_worker_info()
        return torch.tensor([self.ds_id, int(idx), self.hook_dataset_len, -1 if wi is None else wi.id, self.hook_calls])


class TagCollator:
    def __init__(self, tag):
        self.tag = tag

    def __call__(self, batch):
        return {"tag": self.tag, "data": default_collate(list(batch))}


class LabelDataset(KDDataset):
    """root dataset with class labels only; getall_class returns a list / tensor / ndarray depending on `form`"""

    def __init__(self, classes, n_classes, form="list"):
        super().__init__()
        self.classes = list(classes)
        self.n_classes = n_classes
        self.form = form

    def __len__(self):
        return len(self.classes)

    def getitem_class(self, idx, ctx=None):
        return self.classes[idx]

    def getshape_class(self):
        return (1 if self.n_classes == 2 else self.n_classes),

    def getall_class(self):
        import numpy as np
        if self.form == "tensor":
            return torch.tensor(self.classes)
        if self.form == "numpy":
            return np.array(self.classes)
        return list(self.classes)


class PerSampleLabelDataset(KDDataset):
    """no bulk accessor: samplers must fall back to getitem_class"""

    def __init__(self, classes, n_classes, fail_at=()):
        super().__init__()
        self.classes = list(classes)
        self.n_classes = n_classes
        self.fail_at = set(fail_at)  # label reads (counted per object copy) that fail once with an I/O error
        self.reads = 0

    def __len__(self):
        return len(self.classes)

    def getitem_class(self, idx, ctx=None):
        self.reads += 1
        if self.reads in self.fail_at:
            raise InjectedReadError(5, f"injected read error at label read {self.reads} (sample {idx})")
        return self.classes[idx]

    def getshape_class(self):
        return (1 if self.n_classes == 2 else self.n_classes),


class TensorDataset(KDDataset):
    """x[i] is a deterministic (3,16,16) float tensor, fresh object per access; class labels optional"""

    def __init__(self, size, n_classes=3, **kw):
        super().__init__(**kw)
        self.size = size
        self.n_classes = n_classes

    def __len__(self):
        return self.size

    def getitem_x(self, idx, ctx=None):
        idx = int(idx)
        return ((torch.arange(3 * 16 * 16).float().view(3, 16, 16) * (idx + 2)) % 23) / 23

    def getitem_class(self, idx, ctx=None):
        return (int(idx) * 7 + 1) % self.n_classes

    def getshape_class(self):
        return (self.n_classes,)

    def getall_class(self):
        return [self.getitem_class(i) for i in range(self.size)]


def identity_collate(batch):
    """no collation: the delivered batch is the list of samples (contexts may have optional keys)"""
    return list(batch)


class RootDataset(KDDataset):
    """general purpose root: kind 'tensor' (x = (3,16,16) float), 'pil' (x = 32x32 RGB image), 'semseg' (tensor x + label map),
    'dup' (every sample has the same x: isolates the random stream from the data).  Fresh objects on every access
    (several wrappers mutate in place).  y/source/target items mirror x for the generic transform wrappers.
    `clobber` maps an access number (per process copy) to (which, seed): foreign code reseeding a global RNG (fault F8)."""

    def __init__(self, kind, size, n_classes=3, clobber=None, ctx_tags=False, ds_id=0, fail_at=(), lazy_fail_at=(), **kw):
        super().__init__(**kw)
        self.fail_at = set(fail_at)
        self.lazy_fail_at = set(lazy_fail_at)  # accesses at which a 'pil' root hands out a LAZILY decoded image whose first
        #                                        pixel-data read fails once (the error surfaces inside whoever touches the pixels)
        self.ctx_tags = ctx_tags
        self.ds_id = ds_id
        self.kind = kind
        self.size = size
        self.n_classes = n_classes
        self.clobber = dict(clobber or {})
        self.accesses = 0

    def __len__(self):
        return self.size

    def _foreign_code(self):
        import random
        import numpy as np
        c = self.clobber.get(self.accesses)
        self.accesses += 1
        if self.accesses in self.fail_at:
            raise InjectedReadError(5, f"injected read error at access {self.accesses}")
        if c is not None:
            which, seed = c
            if which == "py":
                random.seed(seed)
            elif which == "np":
                np.random.seed(seed)
            elif which == "torch":
                torch.manual_seed(seed)
            else:
                random.random()
                np.random.rand(2)
                torch.rand(2)

    def getitem_x(self, idx, ctx=None):
        import numpy as np
        self._foreign_code()
        idx = int(idx)
        assert 0 <= idx < self.size, f"index {idx} out of range({self.size})"
        if ctx is not None and self.ctx_tags:
            ctx["root_x"] = (self.ds_id, idx)  # recorded for every sample
            ctx["last_item"] = "x"
            ctx[f"tag{idx % 3}"] = idx  # key set differs between samples: a leaked context shows up as extra keys
        k = 0 if self.kind == "dup" else idx + 31 * self.ds_id
        if self.kind == "pil":
            from PIL import Image
            a = ((np.arange(32 * 32 * 3).reshape(32, 32, 3) * (k + 2)) % 251).astype(np.uint8)
            if self.accesses in self.lazy_fail_at:
                return lazy_flaky_image(a)
            return Image.fromarray(a)
        return ((torch.arange(3 * 16 * 16).float().view(3, 16, 16) * (k + 2)) % 23) / 23

    def _item(self, name, idx, ctx):
        out = self.getitem_x(idx, ctx)
        if ctx is not None and self.ctx_tags:
            ctx["last_item"] = name  # the same key is written by several loaders with different values
        return out

    def getitem_y(self, idx, ctx=None):
        return self._item("y", idx, ctx)

    def getitem_source(self, idx, ctx=None):
        return self._item("source", idx, ctx)

    def getitem_target(self, idx, ctx=None):
        return self._item("target", idx, ctx)

    def getitem_semseg(self, idx, ctx=None):
        return (torch.arange(16 * 16).view(16, 16) + int(idx)) % 5

    def getitem_class(self, idx, ctx=None):
        return (int(idx) * 7 + 1) % self.n_classes

    def getshape_class(self):
        return (self.n_classes,)

    def getall_class(self):
        return [self.getitem_class(i) for i in range(self.size)]


FLAKY_FILES = []  # every armed file object handed out (one interpreter hosts all simulated processes): the harness disarms them
#                   before it looks at pixels itself


class _FlakyFile(__import__("io").BytesIO):
    armed = False

    def read(self, n=-1):
        if self.armed:
            self.armed = False
            raise InjectedReadError(5, "injected: read error while the image is decoded lazily")
        return super().read(n)


def lazy_flaky_image(array):
    """a PIL image opened from a (lossless) BMP byte stream: the header is parsed, the pixels are read on first use - and
    that first read fails once"""
    import io
    from PIL import Image
    buf = io.BytesIO()
    Image.fromarray(array).save(buf, format="BMP")
    f = _FlakyFile(buf.getvalue())
    img = Image.open(f)
    f.armed = True
    FLAKY_FILES.append(f)
    return img


def disarm_flaky_files():
    n = sum(1 for f in FLAKY_FILES if f.armed)
    for f in FLAKY_FILES:
        f.armed = False
    del FLAKY_FILES[:]
    return n


class InjectedReadError(OSError):
    """a transient I/O error of the storage behind a root dataset (fault injected by the harness)"""


class PlainTorchDataset(torch.utils.data.Dataset):
    """an ordinary torch dataset returning (x, class) tuples - the thing TorchWrapper adapts"""

    def __init__(self, size, n_classes=3, fail_at=()):
        self.size = size
        self.n_classes = n_classes
        self.fail_at = set(fail_at)
        self.accesses = 0

    def __len__(self):
        return self.size

    def __getitem__(self, idx):
        idx = int(idx)
        if not 0 <= idx < self.size:
            raise IndexError(idx)
        self.accesses += 1
        if self.accesses in self.fail_at:
            raise InjectedReadError(5, f"injected read error at access {self.accesses} (sample {idx})")
        return ((torch.arange(3 * 16 * 16).float().view(3, 16, 16) * (idx + 2)) % 23) / 23, (idx * 7 + 1) % self.n_classes


from kappadata.transforms.base.kd_transform import KDTransform as _KDTransform


class OffsetKDTransform(_KDTransform):
    """a deterministic KDTransform (is_deterministic is True by default) with a tunable parameter, used as post-cache
    transform: wraps the sample together with its current offset, so a stale (cached) application is visible.
    `on_call` is a module-level hook the harness uses to log calls and to yield to the scheduler."""
    on_call = [None]

    def __init__(self, offset=0):
        super().__init__()
        self.offset = offset

    def _scale_strength(self, factor):
        self.offset = round(factor * 100)

    def __call__(self, x, ctx=None):
        if OffsetKDTransform.on_call[0] is not None:
            OffsetKDTransform.on_call[0]()
        return ("KD", self.offset, x)


class FaultyCallTransform(_KDTransform):
    """identity whose `fail_call`-th application (counted per process, from the worker hook on) raises a read error - a corrupt
    sample reaching the transform pipeline; a deterministic KDTransform, scaling it does nothing"""

    def __init__(self, fail_call=None, fail_ranks=None):
        super().__init__()
        self.fail_call = fail_call
        self.fail_ranks = fail_ranks
        self.calls = 0
        self.rank_ = 0

    def _worker_init_fn(self, rank, num_workers=None, **kwargs):
        self.calls = 0
        self.rank_ = rank

    def _scale_strength(self, factor):
        pass

    def __call__(self, x, ctx=None):
        k = self.calls
        self.calls += 1
        if self.fail_call is not None and k == self.fail_call and (self.fail_ranks is None or self.rank_ in self.fail_ranks):
            raise InjectedReadError(5, f"injected: corrupt sample reached the transform (call {k} on worker {self.rank_})")
        return x


class FaultyHookTransform(_KDTransform):
    """a deterministic transform whose per-worker initialisation needs a resource (a lookup file on node-local storage, say)
    that is missing on some workers: its hook raises there.  Applied to a sample it is the identity."""

    def __init__(self, fail_ranks=None):
        super().__init__()
        self.fail_ranks = fail_ranks  # None: every worker

    def _worker_init_fn(self, rank, num_workers=None, **kwargs):
        if self.fail_ranks is None or rank in self.fail_ranks:
            raise InjectedReadError(2, f"injected: resource of FaultyHookTransform missing on worker {rank}")

    def __call__(self, x, ctx=None):
        return x


from kappadata.datasets.kd_wrapper import KDWrapper as _KDWrapper


class CountingFusedWrapper(_KDWrapper):
    """a wrapper that declares x and class as jointly loaded; every load (joint or single) gets a running number, so a
    delivered sample shows whether its fused members came from ONE joint load"""

    def __init__(self, dataset, joint=True):
        super().__init__(dataset=dataset)
        self.loads = 0
        self.joint = joint  # an instance may be configured to load the two items separately (e.g. when only one is ever needed)

    @property
    def fused_operations(self):
        return super().fused_operations + ([["x", "class"]] if self.joint else [])

    def _next(self):
        self.loads += 1
        return self.loads

    def getitem_x(self, idx, ctx=None):
        return ("x", int(idx), self._next())

    def getitem_class(self, idx, ctx=None):
        return ("class", int(idx), self._next())

    def getitem_xclass(self, idx, ctx=None):
        n = self._next()
        return ("x", int(idx), n), ("class", int(idx), n)

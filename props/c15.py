"""C15 - strength scaling interpolates from identity to the configured augmentation; scheduled transforms.

Part A (run class "factors", simproc replicas): factor sequences are an operation history on one object T
(scale(f), calls, pickle round trips, set_rng in any order); a fresh replica R in another simulated process
receives only the LAST factor (none at all if it is 1).  With equal injected seeds and inputs T and R must produce
equal outputs and contexts (scale(1) restores, no compounding).  Zero strength: sampled parameters (read from the
recorded context) equal the weakest value of the per-parameter table written from the property text; where that is
an exact no-op, output == input.  Monotone: for f < g and one seed every sampled parameter at f lies between its
values at 0 and at g.
Part B (run class "schedule", simloader): XTransformWrapper(KDScheduledTransform(t, schedule), seed) in the
simulated loader, one iterator over the whole run, K workers, full batches; every delivered sample of global batch
b must report strength == schedule.get_value(b, n_batches) and equal what a replica scaled with exactly that value
produces - for every K and every completion order.
"""
from simkit import core
from . import catalog as C

# weakest value per recorded-parameter name (suffix of the context key), from the statement and the class docstrings
WEAKEST = {"brightness": 1.0, "contrast": 1.0, "saturation": 1.0, "hue": 0.0, "magnitude": 0.0}
SKIP_MARKER = -1  # KDRandom* record -1 for a skipped application; KDColorJitter records `value or -1`

# leaves whose weakest setting is an exact no-op on the harness inputs: output must equal input at strength 0
NOOP_AT_ZERO = {"KDAdditiveGaussianNoise", "KDAdditiveGaussianNoise(normalmag)", "KDAdditiveUniformNoise",
                "KDRandomAdditiveGaussianNoise", "KDThreshold", "KDRandomThreshold", "KDRandomGrayscale", "KDRandomSolarize",
                "KDSolarize(int)", "KDSolarize(float)"}

NOOP_BASES = {"KDAdditiveGaussianNoise", "KDAdditiveUniformNoise", "KDThreshold", "KDRandomGrayscale", "KDRandomSolarize"}

SCHEDULES = ["default", "linear_dec", "cosine_inc", "const", "custom"]


def scalable_names():
    L = C.leaves()
    out = []
    for n, e in sorted(L.items()):
        if n.startswith("P|"):
            continue
        try:
            t = e["make"]()
        except Exception:
            continue
        # the domain is decided here, not by asking the library: a class takes part iff it (or a base) overrides the scaling hook
        from kappadata.transforms.base.kd_transform import KDTransform
        if isinstance(t, KDTransform) and type(t)._scale_strength is not KDTransform._scale_strength:
            out.append(n)
    return out


_SC = None


def scalable():
    global _SC
    if _SC is None:
        _SC = scalable_names()
    return _SC


def make_schedule(name):
    import kappaschedules as ks
    if name == "default":
        return None
    if name == "linear_dec":
        return ks.LinearDecreasingSchedule()
    if name == "cosine_inc":
        return ks.CosineIncreasingSchedule()
    if name == "const":
        return 0.3
    if name == "custom":
        return ks.CustomSchedule([0.0, 1.0, 0.25, 0.5, 0.75, 0.1, 0.9, 0.33, 0.66, 1.0, 0.0, 0.5])
    raise ValueError(name)


def L_is_pipeline(spec):
    return spec["t"] == "leaf" and C.leaves()[spec["name"]].get("pipeline", False)


def numeric_params(ctx):
    out = {}
    for k, v in ctx.items():
        if isinstance(v, bool):
            continue
        if isinstance(v, (int, float)) or (hasattr(v, "item") and getattr(v, "ndim", 1) == 0):
            out[k] = float(v)
    return out


class Spec(core.PropSpec):
    prop = "C15"
    level = "exploration"
    rule = ("plans, run class 'factors': transform tree over the classes whose supports_scale_strength() is true (incl. "
            "KDRandomRotation, KDSolarize int/float, ready-made compose pipelines) and KDComposeTransform nestings of them x factor "
            "sequence in [0,1] (0 and 1 over-represented) mixed with calls, pickle round trips and set_rng x injected seed; "
            "run class 'schedule': inner transform x schedule kind x K in 0..4 workers x batch size x number of batches x hook "
            "argument kind (updates/epochs/samples) x seeded completion order; non-trivial = ('factors') at least two scale "
            "operations with different factors before the comparison, or ('schedule') K>=1 and at least 2 batches; distinct = "
            "distinct SHA-256 of the recorded history")
    assumptions = ["wrappers that do not forward scaling (PatchwiseTransform, KDRandomApply, KDScheduledTransform itself) are outside part A",
                   "part B uses full batches and a single loader iterator over the whole run (domain of the statement)",
                   "output == input at zero strength is only demanded where the weakest setting is an exact no-op (not hue, blur, RandAugment)"]
    components = {"real": ["all scale-supporting kappadata transforms", "KDComposeTransform", "KDScheduledTransform", "MagnitudeSampler",
                           "XTransformWrapper", "ModeWrapper", "kappaschedules"],
                  "stub": ["torch DataLoader (simkit.simloader)", "processes (SimProcess)"]}
    tiers = {"quick": dict(runs=5000, budget_s=45), "thorough": dict(runs=150000, budget_s=600)}

    # ---------------------------------------------------------------------------------------------------------
    def gen_plan(self, seed, tier):
        st = core.Streams(seed)
        rw = st("world")
        ro = st("ops")
        names = scalable()
        L = C.leaves()
        if rw.random() < 0.65:
            def leaf(dom=None, keep=False):
                cand = [n for n in names if (dom is None or L[n]["dom"] == dom) and (L[n]["keep"] or not keep)]
                pick = {"t": "leaf", "name": rw.choice(cand)}
                if rw.random() < 0.4:
                    return C.gen_param_leaf(rw, dom, keep, scalable_only=True) or pick
                return pick

            r = rw.random()
            if r < 0.55:
                spec = leaf()
            else:
                first = leaf(keep=True)
                dom = L[first["name"]]["dom"]
                if L[first["name"]]["pipeline"]:
                    spec = first
                else:
                    items = [first] + [leaf(dom, keep=True) for _ in range(rw.randint(0, 2))]
                    items = [i for i in items if not L[i["name"]]["pipeline"]] or [first]
                    if rw.random() < 0.4 and len(items) > 1:
                        items = [items[0], {"t": "compose", "items": items[1:]}]
                    spec = {"t": "compose", "items": items}
            fs = []
            for _ in range(ro.randint(1, 5)):
                fs.append(ro.choice([0.0, 1.0, 1.0, 0.5, round(ro.random(), 3), round(ro.random(), 3)]))
            ops = []
            for f in fs:
                r = ro.random()
                if r < 0.3:
                    ops.append(["call", ro.randint(0, 5)])
                elif r < 0.4:
                    ops.append(["pickle"])
                elif r < 0.5:
                    ops.append(["set_rng", ro.randint(0, 99)])
                ops.append(["scale", f])
            g = round(ro.uniform(0.05, 1.0), 3)
            return dict(cls="factors", spec=spec, ops=ops, seed=ro.randint(0, 2 ** 31 - 1), ambA=rw.getrandbits(30), ambB=rw.getrandbits(30),
                        ks=[ro.randint(0, 9) for _ in range(3)], mono=[round(g * ro.random(), 3), g])
        if rw.random() < 0.2:
            # one transform object shared by two pipelines (e.g. two view pipelines); factors reach it through either
            cand = [n for n in names if L[n]["keep"] and not L[n]["pipeline"]]
            leaf = rw.choice(cand)
            dom = L[leaf]["dom"]
            other = rw.choice([n for n in cand if L[n]["dom"] == dom])
            hist = [[ro.choice(["A", "B"]), ro.choice([0.0, 1.0, 0.5, round(ro.random(), 3)])] for _ in range(ro.randint(2, 5))]
            if ro.random() < 0.6:
                hist.append(list(ro.choice(hist[:-1])))  # the same pipeline gets the same factor again after the other one intervened
            return dict(cls="shared", leaf=leaf, other=other, hist=hist, seed=ro.randint(0, 2 ** 31 - 1), ks=[ro.randint(0, 9) for _ in range(3)],
                        ambA=rw.getrandbits(30), ambB=rw.getrandbits(30))
        inner = rw.choice([n for n in names if L[n]["dom"] == "T" and L[n]["keep"] and not L[n]["pipeline"]])
        B = rw.randint(1, 4)
        n_batches = rw.randint(1, 10)
        kind = rw.choice(["updates", "updates", "epochs", "samples"])
        epochs = rw.choice([1, 2, 3]) if kind == "epochs" else None
        if kind == "epochs":
            n_batches = epochs * rw.randint(1, 4)
        rem = rw.choice([0, 0, 1, B - 1, rw.randint(0, B - 1)]) if B > 1 else 0  # samples dropped per epoch under drop_last
        return dict(cls="schedule", rem=rem, nest=rw.choice(["plain", "plain", "compose", "compose2"]), inner=inner, schedule=rw.choice(SCHEDULES), K=rw.choice([0, 1, 2, 2, 3, 4]), B=B, n_batches=n_batches,
                    hook=kind, epochs=epochs, drop_last=rw.random() < 0.5, prefetch=rw.choice([1, 2, 3]), seed=ro.randint(0, 10 ** 6),
                    sched_seed=ro.getrandbits(32), perm_seed=ro.getrandbits(16),
                    main_pre_access=[ro.randint(0, 3) for _ in range(ro.randint(1, 3))] if ro.random() < 0.25 else [],
                    start_method=ro.choice(["fork", "fork", "spawn"]), preempt_rate=ro.choice([0, 0, 0.05, 0.2, 0.5]),
                    # a corrupt sample makes the INNER transform raise - as the last sample of one of a worker's batches, so that all
                    # batches stay full; the consumer catches the failed batch and carries on with the same loader
                    inner_fault=dict(batch_of_worker=ro.randint(0, 2), ranks=ro.choice([None, [0], [1]])) if ro.random() < 0.2 else None)

    def shrink_candidates(self, plan):
        if plan["cls"] == "shared":
            yield from core.generic_candidates(plan, [["hist"]], [(["seed"], 0)])
            return
        if plan["cls"] == "factors":
            for s in C.spec_candidates(plan["spec"]):
                yield dict(plan, spec=s)
            yield from core.generic_candidates(plan, [["ops"]], [(["seed"], 0)])
        else:
            yield from core.generic_candidates(plan, [], [(["K"], 0), (["B"], 1), (["n_batches"], 1), (["prefetch"], 1), (["epochs"], 1), (["rem"], 0)])
            if plan["schedule"] != "default":
                yield dict(plan, schedule="default")
            if plan.get("main_pre_access"):
                yield dict(plan, main_pre_access=[])
            if plan.get("preempt_rate"):
                yield dict(plan, preempt_rate=0)
            if plan.get("inner_fault"):
                yield dict(plan, inner_fault=None)
            if plan.get("start_method") == "spawn":
                yield dict(plan, start_method="fork")

    def execute(self, plan):
        out = core.Outcome()
        if plan["cls"] == "factors":
            self._factors(plan, out)
        elif plan["cls"] == "shared":
            self._shared(plan, out)
        else:
            self._schedule(plan, out)
        return out

    def _shared(self, plan, out):
        """pipelines A = compose[leaf] and B = compose[leaf, other] share the leaf OBJECT; after any history of scale calls on
        A and B, the pipeline scaled last must behave like a fresh replica of itself scaled only by that last factor"""
        import numpy as np
        import kappadata.transforms as kdt
        from simkit.deep import deep_diff, h
        from simkit.simproc import SimProcess
        L = C.leaves()
        dom = L[plan["leaf"]]["dom"]
        pT, pR = SimProcess("T", plan["ambA"]), SimProcess("R", plan["ambB"] ^ 0x77777)

        def build(proc):
            with proc.on_cpu():
                leaf = L[plan["leaf"]]["make"]()
                return {"A": kdt.KDComposeTransform([leaf]), "B": kdt.KDComposeTransform([leaf, L[plan["other"]]["make"]()])}

        try:
            T = build(pT)
            last = None
            for which, f in plan["hist"]:
                with pT.on_cpu():
                    T[which].scale_strength(f)
                last = (which, f)
                out.count("logical:scale_operations")
            R = build(pR)
            with pR.on_cpu():
                if last[1] != 1.0:
                    R[last[0]].scale_strength(last[1])
            res = {}
            for name, obj, proc in (("T", T[last[0]], pT), ("R", R[last[0]], pR)):
                with proc.on_cpu():
                    obj.set_rng(np.random.default_rng(plan["seed"]))
                    res[name] = [(lambda c: (obj(C.clone(C.make_input(dom, k)), c), c))({}) for k in plan["ks"]]
        except Exception as e:
            out.violate(f"C15:raises:{type(e).__name__}", plan["leaf"], f"shared leaf {plan['leaf']} history {plan['hist']}: {type(e).__name__}: {e}")
            return
        out.ev("shared", plan["hist"], [h(x) for x in res["T"]])
        d = deep_diff(res["T"], res["R"])
        if d:
            out.violate("C15:result-depends-on-earlier-factors" if last[1] != 1.0 else "C15:scale-1-does-not-restore", plan["leaf"],
                        f"leaf {plan['leaf']} shared by pipelines A and B, history {plan['hist']}: pipeline {last[0]} differs from a fresh replica "
                        f"scaled only by {last[1]}: {d}")
        out.tags.append("shared-leaf")
        out.nontrivial = len({tuple(x) for x in plan["hist"]}) >= 2

    # ---------------------------------------------------------------------------------------------------------
    def _factors(self, plan, out):
        import numpy as np
        from simkit.deep import deep_diff, h
        from simkit.simproc import SimProcess, pickle_copy
        spec = plan["spec"]
        dom = C.dom_of(spec)
        site_default = C.root_name(spec)
        pT, pR = SimProcess("T", plan["ambA"]), SimProcess("R", plan["ambB"] ^ 0x33333)

        def fresh(proc):
            with proc.on_cpu():
                return C.build(spec)

        def culprit(cls, probe):
            """smallest subtree whose own run shows the same class"""
            cur = spec
            while True:
                for sub in C.subtrees(cur):
                    try:
                        if probe(sub):
                            cur = sub
                            break
                    except Exception:
                        pass
                else:
                    return C.root_name(cur)

        try:
            T = fresh(pT)
        except Exception as e:
            out.rejected = True
            out.count("unconstructible")
            return
        last = None
        factors = []
        for op in plan["ops"]:
            try:
                with pT.on_cpu():
                    if op[0] == "scale":
                        T.scale_strength(op[1])
                        last = op[1]
                        factors.append(op[1])
                        out.count("logical:scale_operations")
                    elif op[0] == "call":
                        T(C.clone(C.make_input(dom, op[1])), {})
                    elif op[0] == "pickle":
                        T = pickle_copy(T)
                        out.count("fault:pickle_round_trip")
                    elif op[0] == "set_rng":
                        T.set_rng(np.random.default_rng(op[1]))
            except Exception as e:
                cls = f"C15:raises:{type(e).__name__}"
                out.violate(cls, self._culprit_raise(spec, op, dom), f"tree={C.sig(spec)} op {op}: {type(e).__name__}: {e}")
                out.ev("raised", op, type(e).__name__)
                return
        if last is None:
            out.rejected = True
            return

        def run_calls(obj, proc, factor_for_fresh=None):
            res = []
            with proc.on_cpu():
                obj.set_rng(np.random.default_rng(plan["seed"]))
                for k in plan["ks"]:
                    ctx = {}
                    y = obj(C.clone(C.make_input(dom, k)), ctx)
                    res.append((y, ctx))
            return res

        def replica(factor, sp=spec):
            with pR.on_cpu():
                R = C.build(sp)
                if factor is not None:
                    R.scale_strength(factor)
            return R

        try:
            got = run_calls(T, pT)
            ref = run_calls(replica(None if last == 1.0 else last), pR)
        except Exception as e:
            out.violate(f"C15:raises:{type(e).__name__}", site_default, f"tree={C.sig(spec)} after factors {factors}: {type(e).__name__}: {e}")
            return
        out.ev("factors", factors, [h(g) for g in got])
        d = deep_diff([g[0] for g in got], [r[0] for r in ref], "out") or deep_diff([g[1] for g in got], [r[1] for r in ref], "ctx")
        if d:
            cls = "C15:scale-1-does-not-restore" if last == 1.0 else "C15:result-depends-on-earlier-factors"

            def probe(sub):
                A = C.build(sub)
                for f in factors:
                    A.scale_strength(f)
                Bq = C.build(sub)
                if last != 1.0:
                    Bq.scale_strength(last)
                A.set_rng(np.random.default_rng(1))
                Bq.set_rng(np.random.default_rng(1))
                sd = C.dom_of(sub)
                return any(deep_diff(A(C.clone(C.make_input(sd, k)), {}), Bq(C.clone(C.make_input(sd, k)), {})) for k in range(4))

            out.violate(cls, culprit(cls, probe), f"tree={C.sig(spec)} factors={factors}: object differs from a fresh replica "
                                                  f"{'never scaled' if last == 1.0 else 'scaled only by ' + str(last)}: {d}")
        # ---- "also through compositions": scaling the composition = scaling every member directly ------------------------
        if spec["t"] != "leaf" or L_is_pipeline(spec):
            import kappadata.transforms as kdt

            def scale_members(t, f):
                if isinstance(t, kdt.KDComposeTransform):
                    for c in t.transforms:
                        scale_members(c, f)
                elif isinstance(t, kdt.KDTransform):
                    t.scale_strength(f)

            try:
                with pR.on_cpu():
                    R2 = C.build(spec)
                    scale_members(R2, last)
                ref2 = run_calls(R2, pR)
                d2 = deep_diff([g[0] for g in ref[:]], [r[0] for r in ref2], "out")
            except Exception as e:
                d2 = None
            if d2:
                out.violate("C15:composition-does-not-pass-the-factor-on", site_default,
                            f"tree={C.sig(spec)}: scaling the composition by {last} differs from scaling each member by {last}: {d2}")
        # ---- zero strength and monotonicity (fresh replicas, same seed) ---------------------------------------------
        try:
            z = run_calls(replica(0.0), pR)
            f_lo, f_hi = plan["mono"]
            lo = run_calls(replica(f_lo), pR)
            hi = run_calls(replica(f_hi), pR)
        except Exception as e:
            out.violate(f"C15:raises:{type(e).__name__}", site_default, f"tree={C.sig(spec)} scaling a fresh replica: {type(e).__name__}: {e}")
            return
        out.ev("zero", [h(x) for x in z], plan["mono"], [h(x) for x in lo])
        leaf_names = self._leaf_names(spec)
        for i, k in enumerate(plan["ks"]):
            pz, pl, ph = numeric_params(z[i][1]), numeric_params(lo[i][1]), numeric_params(hi[i][1])
            for key, val in sorted(pz.items()):
                name = key.rsplit(".", 1)[-1]
                owner = key.rsplit(".", 1)[0]
                if val == SKIP_MARKER:
                    continue
                if name in WEAKEST:
                    want = WEAKEST[name]
                elif name == "sigma":
                    want = 0.1  # sigma_lb of every blur in the catalogue
                elif name == "threshold":
                    want = 256.0 if val > 1.5 or val == 256 else 1.0
                    if val not in (256.0, 1.0):
                        want = 256.0 if val > 1.0 else 1.0
                else:
                    continue
                if abs(val - want) > 1e-9:
                    out.violate("C15:zero-strength-not-weakest", owner, f"tree={C.sig(spec)}: after scale(0) {key}={val}, weakest setting is {want}")
            # monotone: value at f_lo between the value at 0 (or the weakest value) and the value at f_hi
            for key in sorted(set(pl) & set(ph)):
                name = key.rsplit(".", 1)[-1]
                a, b = pl[key], ph[key]
                if a == SKIP_MARKER or b == SKIP_MARKER:
                    continue
                zero = pz.get(key)
                if zero is None or zero == SKIP_MARKER:
                    zero = WEAKEST.get(name)
                if zero is None:
                    continue
                if not (min(zero, b) - 1e-9 <= a <= max(zero, b) + 1e-9):
                    out.violate("C15:not-monotone", key.rsplit(".", 1)[0],
                                f"tree={C.sig(spec)}: {key} is {zero} at 0, {a} at {f_lo}, {b} at {f_hi} (same seed)")
            if leaf_names and all(n in NOOP_AT_ZERO or (n.startswith("P|") and C.base_class(n) in NOOP_BASES) for n in leaf_names):
                d0 = deep_diff(z[i][0], C.make_input(dom, k))
                if d0:
                    out.violate("C15:zero-strength-not-identity", site_default if len(leaf_names) > 1 else leaf_names[0],
                                f"tree={C.sig(spec)}: output differs from input after scale(0): {d0}")
        out.tags.append("root:" + C.root_name(spec))
        if 0.0 in factors:
            out.tags.append("sequence-contains-0")
        if last == 1.0 and len(set(factors)) > 1:
            out.tags.append("restore-after-weaker-factors")
        out.nontrivial = len(set(factors)) >= 2
        out.count("logical:joint_calls", len(plan["ks"]) * 5)

    @staticmethod
    def _leaf_names(spec):
        if spec["t"] == "leaf":
            return [spec["name"]]
        out = []
        for s in C.subtrees(spec):
            out += Spec._leaf_names(s)
        return out

    @staticmethod
    def _culprit_raise(spec, op, dom):
        if op[0] != "scale":
            return C.root_name(spec)
        cur = spec
        while True:
            for sub in C.subtrees(cur):
                try:
                    C.build(sub).scale_strength(op[1])
                except Exception:
                    cur = sub
                    break
            else:
                return C.root_name(cur)

    # ---------------------------------------------------------------------------------------------------------
    def _schedule(self, plan, out):
        from functools import partial
        import numpy as np
        import torch
        import kappadata.transforms as kdt
        from kappadata.wrappers import ModeWrapper, XTransformWrapper
        from simkit.chooser import Chooser
        from simkit.deep import deep_diff, h
        from simkit.simloader import SimDataLoader
        from .simdata import TensorDataset, identity_collate, InjectedReadError
        L = C.leaves()
        K, B, NB = plan["K"], plan["B"], plan["n_batches"]
        site = plan["inner"]
        if NB < 1 or B < 1:
            out.rejected = True
            return
        sched_obj = make_schedule(plan["schedule"])
        inf = plan.get("inner_fault") if plan.get("nest", "plain") == "plain" and plan["main_pre_access"] == [] else None
        from .simdata import FaultyCallTransform

        def with_fault(t, armed):
            if inf is None:
                return t
            fc = FaultyCallTransform(fail_call=(inf["batch_of_worker"] + 1) * B - 1 if armed else None,
                                     fail_ranks=None if inf["ranks"] is None else set(inf["ranks"]))
            return kdt.KDComposeTransform([fc, t])

        try:
            st = kdt.KDScheduledTransform(with_fault(L[plan["inner"]]["make"](), True), schedule=sched_obj)
            nest = plan.get("nest", "plain")
            top = st
            if nest == "compose":
                # the scheduled transform sits inside a composition: hook arguments and seeds must travel through it
                top = kdt.KDComposeTransform([kdt.KDComposeTransform([st])])
            elif nest == "compose2":
                # two scheduled transforms in one pipeline, each with its own counter (the second around an identity-like op)
                other = SCHEDULES[(SCHEDULES.index(plan["schedule"]) + 1) % len(SCHEDULES)]
                st2 = kdt.KDScheduledTransform(kdt.KDRandomHorizontalFlip(p=0.0), schedule=make_schedule(other))
                top = kdt.KDComposeTransform([st, st2])
        except Exception as e:
            out.rejected = True
            out.ev("rejected", type(e).__name__)
            return
        if plan["hook"] == "epochs":
            E = plan["epochs"]
            if NB % E:
                out.rejected = True
                return
            N = (NB // E) * B
            n_used = N
            if plan["drop_last"]:
                N += plan.get("rem", 0) % B  # the dropped remainder of every epoch: all delivered batches are still full
            hook_kw = dict(batch_size=B, epochs=E, dataset_len=N, world_size=1, drop_last=plan["drop_last"])
        elif plan["hook"] == "updates":
            N = NB * B
            hook_kw = dict(batch_size=B, updates=NB)
        else:
            N = NB * B
            hook_kw = dict(batch_size=B, samples=NB * B)
        ds = ModeWrapper(XTransformWrapper(TensorDataset(N), top, seed=plan["seed"]), mode="index x", return_ctx=True)
        # one iterator over the whole run: a list of full batches (order drawn from the plan)
        import random as _r
        prng = _r.Random(plan["perm_seed"])
        batches = []
        while len(batches) < NB:
            perm = list(range(N))
            prng.shuffle(perm)
            batches += [perm[i:i + B] for i in range(0, N - N % B, B)]  # drop_last: only full batches
        batches = batches[:NB]

        class Ld(SimDataLoader):
            chooser = Chooser(seed=plan["sched_seed"])
            trace = []
            start_method = plan.get("start_method", "fork")
            preempt = dict(seed=plan["sched_seed"], rate=plan["preempt_rate"]) if plan.get("preempt_rate") else None
            switches = 0
            deliver_errors = inf is not None

        try:
            for i in plan.get("main_pre_access") or []:
                # the trainer looks at a sample (shape check, visualisation) in the main process before the loader exists: the
                # schedule is not active there and nothing of it may reach the workers
                ds[i % N]
                out.count("fault:main_process_access_before_loader")
            if K == 0:
                ds.worker_init_fn(0, **hook_kw)  # the documented manual way for num_workers=0
                loader = Ld(ds, batch_sampler=batches, num_workers=0, collate_fn=identity_collate)
            else:
                loader = Ld(ds, batch_sampler=batches, num_workers=K, prefetch_factor=plan["prefetch"], collate_fn=identity_collate,
                            worker_init_fn=partial(ds.worker_init_fn, **hook_kw))
            delivered = list(loader)
        except Exception as e:
            out.violate(f"C15:schedule-raises:{type(e).__name__}", site, f"{type(e).__name__}: {e}")
            return
        out.ev("schedule", Ld.trace)
        if Ld.switches:
            out.count("fault:worker_preempted_inside_a_sample", Ld.switches)
        if K >= 1 and Ld.start_method == "spawn":
            out.count("fault:workers_started_with_spawn")
            out.tags.append("spawn")
        order = [t[1] for t in Ld.trace if t[0] != "main" and len(t) == 2]
        if order != sorted(order):
            out.count("fault:out_of_order_completion")
        ref_sched = st.schedule
        if plan.get("nest") == "compose2":
            ref_sched_reported = st2.schedule  # both write the same context key: the pipeline's last scheduled transform wins
        else:
            ref_sched_reported = st.schedule
        key = st.ctx_key
        from simkit.simloader import BatchFailure
        for b, samples in enumerate(delivered):
            if isinstance(samples, BatchFailure):
                if core.caused_by(samples.exc, InjectedReadError):
                    out.count("fault:corrupt_sample_in_inner_transform_batch_lost")
                    out.ev("batch-lost", b)
                    continue
                out.violate(f"C15:schedule-raises:{type(samples.exc).__name__}", site, f"batch {b}: {type(samples.exc).__name__}: {samples.exc}")
                break
            want = ref_sched.get_value(b, NB)
            got = []
            for (index, x), ctx in samples:
                if key not in ctx:
                    out.violate("C15:strength-not-reported", site, f"batch {b}: context has no '{key}' (keys {sorted(ctx)[:5]})")
                    break
                got.append(float(ctx[key]))
            else:
                out.ev("batch", b, got)
                want_reported = ref_sched_reported.get_value(b, NB)
                if any(abs(g - want_reported) > 1e-12 for g in got):
                    out.violate("C15:wrong-strength-for-batch", f"K={'0' if K == 0 else '>=1'},hook={plan['hook']}",
                                f"global batch {b} of {NB} (K={K}, B={B}): reported strengths {got}, schedule value {want_reported}")
                    break
                # the sample must be what a replica scaled with exactly that value produces
                for (idx, x), ctx in samples:
                    # reference: the same seeded wrapper around the (unscheduled) inner transform scaled by exactly that value
                    rep = with_fault(L[plan["inner"]]["make"](), False)
                    rep.scale_strength(want)
                    if plan.get("nest") == "compose2":
                        rep = kdt.KDComposeTransform([rep, kdt.KDRandomHorizontalFlip(p=0.0)])
                    ref_ds = ModeWrapper(XTransformWrapper(TensorDataset(N), rep, seed=plan["seed"]), mode="x")
                    exp = ref_ds[int(idx)]
                    d = deep_diff(x, exp)
                    if d:
                        out.violate("C15:sample-not-scaled-by-schedule-value", site, f"batch {b} sample {idx}: {d}")
                        break
                continue
            break
        if len(delivered) != NB:
            out.violate("C15:schedule-batch-count", site, f"{len(delivered)} batches delivered, {NB} expected")
        out.count("logical:batches", len(delivered))
        out.tags.append(f"K={K}")
        out.tags.append("hook:" + plan["hook"])
        out.tags.append("schedule:" + plan["schedule"])
        out.nontrivial = K >= 1 and NB >= 2


    def extra_evidence(self, tier, seed):
        from simkit.simloader import stub_validation
        sv = stub_validation(3 if tier == "quick" else 25, seed)
        if tier != "quick":
            from simkit.simloader import spawn_model_validation
            sv["spawn_sharing_model_vs_real_DataLoader"] = spawn_model_validation()
        return {"stub_validation": sv, "traces_validated_against_impl": sv["batches_compared"]}


SPEC = Spec()

"""C12 - rank-aware samplers split one global epoch draw evenly and reproducibly (simcluster engine)."""
from simkit import core
from . import cluster as CL


def runs_of(seq):
    out = []
    for x in seq:
        if out and out[-1][0] == x:
            out[-1][1] += 1
        else:
            out.append([x, 1])
    return out


class Spec(core.PropSpec):
    prop = "C12"
    level = "exploration"
    rule = ("plans = sampler kind (kd.DistributedSampler with shuffle/num_repeats/drop_last, ClassBalancedSampler, WeightedSampler, "
            "kd.RandomSampler) x world size 1..6 x dataset size 1..24 (incl. N < W) x seed x epoch list (incl. repeated epochs) "
            "x faults (ambient RNG clobber in one rank, rank restart mid-epoch, re-iteration) x seeded item-level interleaving "
            "of the ranks; non-trivial = W>=2 and every rank produced at least one index in some epoch; distinct = distinct "
            "SHA-256 of (per-rank streams per epoch, reference draw, schedule)")
    assumptions = ["torch.distributed is not initialised: rank and world size are passed explicitly (the path real DDP jobs take too)",
                   "the W=1 reference sampler runs the same real class in a fresh simulated process with different ambient RNG state"]
    components = {"real": ["kappadata.samplers.DistributedSampler", "RandomSampler", "ClassBalancedSampler", "WeightedSampler",
                           "kappadata.utils.getall_as_tensor", "torch.utils.data.DistributedSampler (base class)"],
                  "stub": ["rank processes (SimProcess: private ambient RNG triple, pickled dataset copy)", "torch.distributed (absent)"]}
    tiers = {"quick": dict(runs=12000, budget_s=40), "thorough": dict(runs=800000, budget_s=600)}

    def gen_plan(self, seed, tier):
        return CL.gen_plan(seed, ["dist", "dist", "cb", "weighted", "random"], big=tier != "quick")

    def shrink_candidates(self, plan):
        return CL.candidates(plan)

    def execute(self, plan):
        out = core.Outcome()
        w = plan["world"]
        kind, W, N = w["kind"], w["W"], w["N"]
        site = kind + (f",repeats={int(w['num_repeats'] > 1)},drop_last={int(w['drop_last'])}" if kind == "dist" else "")
        try:
            res = CL.run_cluster(plan, out)
        except CL.Rejected:
            out.rejected = True
            return out
        except CL.LoudFailure:
            # the injected dependency failure reached the caller on every path: nothing was handed out
            out.count("injected_failure_reached_the_caller")
            out.tags.append("loud-failure")
            out.nontrivial = W >= 2
            return out
        except Exception as e:
            out.violate("C12:raises:" + type(e).__name__, site, f"{type(e).__name__}: {e}")
            return out
        draws = {}
        for pos, e in enumerate(plan["epochs"]):
            streams, lens, g1 = res["streams"][pos], res["lens"][pos], res["ref"][pos]
            L = lens[0]
            if len(set(lens)) != 1 or any(len(s) != L for s in streams):
                out.violate("C12:uneven-rank-lengths", site, f"epoch {e}: len(sampler)={lens}, produced {[len(s) for s in streams]}")
                continue
            bad = [i for s in streams for i in s if not (0 <= i < N)]
            if bad:
                out.violate("C12:invalid-index", site, f"epoch {e}: {bad[:5]} not in range({N})")
            gw = CL.interleave(streams)
            if kind == "random":
                # W=1, no (seed, epoch): validity, length and repeated-augmentation runs only
                if len(gw) != N:
                    out.violate("C12:uneven-rank-lengths", site, f"epoch {e}: {len(gw)} indices for {N} samples")
                if not w["replacement"]:
                    rr = runs_of(gw)
                    if any(c != w["num_repeats"] for _, c in rr[:-1]) or (rr and rr[-1][1] > w["num_repeats"]):
                        out.violate("C12:repeats-not-consecutive", site, f"epoch {e}: runs {rr[:8]} for num_repeats={w['num_repeats']}")
                continue
            # one global draw, same on every rank: G_W is G_1 with only a tail dropped or wrapped around
            total = W * L
            if kind == "dist" and not w["drop_last"]:
                reps = (total // max(1, len(g1)) + 2) if g1 else 0
                exp = (g1 * reps)[:total]
                trailing_ok = total - len(g1) < W if g1 else total == 0
            else:
                exp = g1[:total]
                trailing_ok = 0 <= len(g1) - total < W
            if gw != exp:
                out.violate("C12:ranks-do-not-split-one-global-draw", site,
                            f"epoch {e}: interleaved rank streams {gw[:12]}... differ from the W=1 draw {g1[:12]}... (W={W}, len={L})")
            elif not trailing_ok:
                out.violate("C12:more-than-trailing-entries-dropped", site, f"epoch {e}: |G1|={len(g1)}, W*len={total}, W={W}")
            if kind == "dist" and w["num_repeats"] > 1:
                rr = runs_of(g1)
                if any(c != w["num_repeats"] for _, c in rr[:-1]) or (rr and rr[-1][1] > w["num_repeats"]):
                    out.violate("C12:repeats-not-consecutive", site, f"epoch {e}: runs {rr[:8]} for num_repeats={w['num_repeats']}")
            draws.setdefault(e, []).append(gw)
        # equal (seed, epoch) reproduces
        for e, lst in draws.items():
            if any(x != lst[0] for x in lst[1:]):
                out.violate("C12:not-reproducible-for-equal-seed-epoch", site, f"epoch {e} drawn twice with different results")
        for pos, r, again in res["reiter_ok"]:
            if kind != "random" and again != res["streams"][pos][r]:
                out.violate("C12:reiteration-differs", site, f"rank {r} epoch {plan['epochs'][pos]}: {again[:8]} vs {res['streams'][pos][r][:8]}")
        for pos, r, prefix in res["prefix_ok"]:
            if kind != "random" and prefix != res["streams"][pos][r][:len(prefix)]:
                out.violate("C12:restart-differs", site, f"rank {r} epoch {plan['epochs'][pos]}: prefix before restart {prefix[:8]} vs {res['streams'][pos][r][:8]}")
        # set_epoch changes the draw (only asserted where a coincidence is < 2^-40)
        shuffled = (kind == "dist" and w["shuffle"]) or (kind == "cb" and w["shuffle"]) or kind == "weighted"
        distinct_epochs = sorted(draws)
        if shuffled and N >= 10 and len(distinct_epochs) >= 4 and all(len(draws[e][0]) >= 10 for e in distinct_epochs):
            if all(draws[e][0] == draws[distinct_epochs[0]][0] for e in distinct_epochs):
                out.violate("C12:set_epoch-does-not-change-draw", site, f"epochs {distinct_epochs} all produced the same draw")
            out.tags.append("epoch-sensitivity-asserted")
        if N < W:
            out.tags.append("dataset-smaller-than-world")
        if kind == "dist" and w["num_repeats"] > 1:
            out.tags.append("repeated-augmentation")
        out.tags.append("kind:" + kind)
        out.nontrivial = W >= 2 and any(all(len(s) > 0 for s in st) for st in res["streams"])
        return out


SPEC = Spec()

"""C07 - an injected seed fully determines an augmentation, and nothing else does (simproc replicas).

Two replicas A and B of one transform tree are built independently in two simulated processes whose ambient
(global NumPy / Torch / Python) RNG states differ - constructors draw member generators from the ambient state, so
every member the injected seed does not reach differs between A and B.  Operation history decided by the PRNG:
calls before injection (different on A and B), injection of equal seeds, calls with equal inputs, ambient-RNG
clobbers on one side (F8), pickle round trips (F9), re-injection.
Invariants after every joint call: outputs and recorded contexts equal; each process's ambient triple
bit-identical before and after the call; after re-injection the output sequence restarts.
"""
from simkit import core
from . import catalog as C


class Spec(core.PropSpec):
    prop = "C07"
    level = "exploration"
    rule = ("plans = transform tree (every stochastic catalogue transform incl. audio/semseg/patch transforms, ready-made "
            "pipelines, random compositions compose/random-apply/patchwise/scheduled of depth <= 3) x injected seed x two "
            "ambient RNG states x operation history (pre-injection calls differing between the replicas, inject, joint calls "
            "on inputs of several sizes/modes, one-sided ambient clobbers, pickle round trips, re-injection); non-trivial = the "
            "tree contains a stochastic member, at least two joint calls happened after injection and at least one of "
            "{pre-history, clobber, pickle, re-injection} occurred; distinct = distinct SHA-256 of the recorded history "
            "(operation list with output/context hashes)")
    assumptions = ["inputs are cloned per call (several transforms mutate in place)",
                   "catalogue classes that cannot be constructed with documented defaults in this environment are listed as "
                   "unconstructible and take no part in a verdict"]
    components = {"real": ["every kappadata transform in the catalogue (props/catalog.py)", "KDComposeTransform", "KDRandomApply",
                           "PatchwiseTransform", "KDScheduledTransform", "kappadata.utils.random", "torchvision/PIL ops"],
                  "stub": ["the two processes (SimProcess: private ambient RNG triple)"]}
    tiers = {"quick": dict(runs=6000, budget_s=45), "thorough": dict(runs=200000, budget_s=600)}

    def gen_plan(self, seed, tier):
        st = core.Streams(seed)
        spec = C.gen_entry(st("world"))
        ro = st("ops")
        ops = []
        for _ in range(ro.choice([0, 0, 1, 2, 4])):
            ops.append(["pre", ro.choice(["A", "B"]), ro.randint(0, 5)])
        rc = st("corrupt")
        if rc.random() < 0.2:
            # one replica is fed an unreadable sample before the seed is injected (its loader skips such samples)
            ops.insert(rc.randint(0, len(ops)), ["corrupt", rc.choice(["A", "B"]), rc.randint(0, 5)])
        ops.append(["inject"])
        n_calls = ro.randint(2, 6 if tier == "quick" else 14)
        for i in range(n_calls):
            r = ro.random()
            if r < 0.25:
                ops.append(["clobber", ro.choice(["A", "B"]), ro.choice(["py", "np", "torch", "advance"]), ro.randint(0, 999)])
            elif r < 0.35:
                ops.append(["pickle", ro.choice(["A", "B"])])
            elif r < 0.45:
                ops.append(["migrate", ro.choice(["A", "B"])])
            ops.append(["call"])
        late_corrupt = rc.random() < 0.2
        if late_corrupt:
            # ... or between two injections: the failed call may have consumed random numbers, so the comparison resumes after the
            # next injection (the seeded wrappers inject before every sample)
            for _ in range(rc.randint(1, 3)):
                ops.append(["corrupt", rc.choice(["A", "B"]), rc.randint(0, 5)])
        if late_corrupt or ro.random() < 0.4:
            ops.append(["reinject"])
            for i in range(ro.randint(1, n_calls)):
                if ro.random() < 0.3:
                    ops.append(["clobber", ro.choice(["A", "B"]), ro.choice(["py", "np", "torch"]), ro.randint(0, 999)])
                ops.append(["call"])
        return dict(spec=spec, seed=ro.choice([0, 1, 7, ro.randint(0, 2 ** 31 - 1)]), ambA=st("amb").getrandbits(30),
                    ambB=st("amb").getrandbits(30), ks=[ro.randint(0, 9) for _ in range(6)], ops=ops,
                    variants=[ro.choice([0, 0, 0, 1, 2, 3, 4]) if st("big").random() > 0.08 else 5 for _ in range(6)])

    def shrink_candidates(self, plan):
        for s in C.spec_candidates(plan["spec"]):
            yield dict(plan, spec=s)
        yield from core.generic_candidates(plan, [["ops"]], [(["seed"], 0)])

    def execute(self, plan):
        out = core.Outcome()
        vio = self._run_spec(plan, plan["spec"], out)
        if vio:
            # name the smallest subtree that shows the same class of violation on its own
            for cls in sorted({v[0] for v in vio}):
                spec = plan["spec"]
                while True:
                    for sub in C.subtrees(spec):
                        try:
                            sv = self._run_spec(plan, sub, core.Outcome())
                        except Exception:
                            sv = []
                        if any(v[0] == cls for v in sv):
                            spec = sub
                            break
                    else:
                        break
                detail = next(v[1] for v in vio if v[0] == cls)
                out.violate(cls, C.root_name(spec), f"tree={C.sig(plan['spec'])}: {detail}")
        return out

    def _run_spec(self, plan, spec, out):
        import numpy as np
        from simkit.deep import deep_diff, h
        from simkit.simproc import SimProcess, pickle_copy, save_amb, amb_equal
        vio = []
        dom = C.dom_of(spec)
        procs = {"A": SimProcess("A", plan["ambA"]), "B": SimProcess("B", plan["ambB"] ^ 0x5A5A5A)}
        T = {}
        try:
            for side in "AB":
                with procs[side].on_cpu():
                    T[side] = C.build(spec)
        except Exception as e:
            out.rejected = True
            out.ev("unconstructible", C.sig(spec), type(e).__name__)
            out.count("unconstructible")
            return vio
        injected = False
        migrations = {}
        j = 0
        era = 0
        first_era = {}
        n_joint = 0
        extras = 0
        for op in plan["ops"]:
            try:
                if op[0] == "pre":
                    if injected:
                        continue
                    extras += 1
                    with procs[op[1]].on_cpu():
                        T[op[1]](C.clone(C.make_input(dom, op[2])), {})
                    out.count("fault:pre_injection_history")
                elif op[0] in ("inject", "reinject"):
                    if op[0] == "reinject":
                        if not injected:
                            continue
                        era += 1
                        extras += 1
                        out.count("fault:reinjection")
                    for side in "AB":
                        with procs[side].on_cpu():
                            T[side].set_rng(np.random.default_rng(plan["seed"]))
                    injected = True
                    j = 0
                elif op[0] == "corrupt":
                    bad = C.make_corrupt(dom, op[2])
                    if bad is None:
                        continue
                    try:
                        with procs[op[1]].on_cpu():
                            T[op[1]](bad, {})
                        out.count("corrupt_input_accepted")
                    except Exception:
                        out.count("fault:call_on_unreadable_input_raised")
                    extras += 1
                elif op[0] == "clobber":
                    procs[op[1]].clobber(op[2], op[3])
                    out.count("fault:ambient_rng_clobber")
                    extras += 1
                elif op[0] == "migrate":
                    # the seeded object is shipped to another process (a spawned worker, a subprocess): pickled here, used there
                    side = op[1]
                    with procs[side].on_cpu():
                        blob = __import__("pickle").dumps(T[side])
                    migrations[side] = migrations.get(side, 0) + 1
                    procs[side] = SimProcess(f"{side}-migrated{migrations[side]}", plan["amb" + side] + 7919 * migrations[side])
                    with procs[side].on_cpu():
                        T[side] = __import__("pickle").loads(blob)
                    out.count("fault:migration_to_another_process")
                    extras += 1
                elif op[0] == "pickle":
                    with procs[op[1]].on_cpu():
                        T[op[1]] = pickle_copy(T[op[1]])
                    out.count("fault:pickle_round_trip")
                    extras += 1
                elif op[0] == "call":
                    if not injected:
                        continue
                    k = plan["ks"][j % len(plan["ks"])]
                    var = (plan.get("variants") or [0])[j % len(plan.get("variants") or [0])]
                    res = {}
                    errs = {}
                    for side in "AB":
                        with procs[side].on_cpu():
                            before = save_amb()
                            ctx = {}
                            try:
                                y = T[side](C.clone(C.make_input(dom, k, var)), ctx)
                            except Exception as e:
                                errs[side] = type(e).__name__
                                y = None
                            after = save_amb()
                        res[side] = (y, ctx)
                        if not amb_equal(before, after):
                            which = [n for n, a, b in (("python", before[0], after[0]), ("numpy", str(before[1]), str(after[1])),
                                                       ("torch", before[2].tolist(), after[2].tolist())) if a != b]
                            vio.append(("C07:global-rng-consumed", f"call {j} on replica {side} advanced the global {which} RNG"))
                    if errs:
                        # an input / composition the transform does not support is outside this property - as long as both replicas,
                        # given equal seeds and inputs, refuse alike (raising is then a function of seed and input as well)
                        if errs.get("A") != errs.get("B"):
                            vio.append(("C07:replicas-diverge", f"joint call {j} on input variant {var}: one replica raised {errs}, the other did not"))
                        out.count("input_variant_refused" if var else "both_replicas_raise_alike")
                        out.ev("refused", j, sorted(errs.items()))
                        j += 1
                        continue
                    if var:
                        out.count("input_variant_accepted")
                    n_joint += 1
                    out.count("logical:joint_calls")
                    hv = h(res["A"])
                    out.ev("call", era, j, k, hv, h(res["B"]))
                    d = deep_diff(res["A"][0], res["B"][0], "out") or deep_diff(res["A"][1], res["B"][1], "ctx")
                    if d:
                        vio.append(("C07:replicas-diverge", f"joint call {j} (era {era}, input {k}): {d}"))
                    if era == 0:
                        first_era[j] = hv
                    elif j in first_era and first_era[j] != hv:
                        vio.append(("C07:reinjection-does-not-replay", f"call {j} after re-injecting seed {plan['seed']} differs from call {j} after the first injection"))
                    j += 1
            except Exception as e:
                if op[0] == "pre":
                    out.count("pre_injection_call_raised")
                    continue
                if op[0] in ("call",):
                    # does a fresh, never injected instance refuse the same input in the same way?  then the failure has nothing
                    # to do with seeding (an input / composition the transform does not support) and is outside this property
                    try:
                        k_ = plan["ks"][j % len(plan["ks"])] if op[0] == "call" else op[2]
                        with SimProcess("probe", plan["ambA"] + 99).on_cpu():
                            C.build(spec)(C.clone(C.make_input(dom, k_)), {})
                        same = False
                    except Exception as e2:
                        same = type(e2) is type(e)
                    if same:
                        out.count("call_raises_regardless_of_injection")
                        out.ev("refused", op[0], type(e).__name__)
                        break
                vio.append((f"C07:raises:{type(e).__name__}", f"op {op}: {type(e).__name__}: {e}"))
                out.ev("raised", op[0], type(e).__name__)
                break
        stochastic = True
        try:
            stochastic = not T["A"].is_deterministic
        except Exception:
            pass
        out.tags.append("dom:" + dom)
        out.tags.append("root:" + C.root_name(spec))
        out.nontrivial = stochastic and n_joint >= 2 and extras >= 1
        return vio


SPEC = Spec()

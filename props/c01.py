"""C01 - the mode string decides exactly which items a sample has, and in which order (history part by simulation).

A stack (roots, subset family, KDConcatDataset, label wrappers, seeded transform wrappers recording context, fused-
operation wrappers KDMixWrapper / SemsegTransformWrapper / XTransformWrapper above KDMixWrapper) is mode-wrapped
and replicated into K simulated loader workers (pickled copies, torch worker seeding, worker hook).  The PRNG
decides the access program (int, negative int, slice, index list, full iteration, len), which worker performs which
access (arbitrary per-worker histories incl. repeats), respawns and ambient RNG clobbers in between.
Oracle: a reference model of ModeWrapper written from the statement, evaluated per sample on a FRESH stack in a
fresh process; results and contexts must be deep-equal (a context leaked from a previous access shows up as extra
or stale keys because the root records sample-dependent keys).
"""
from simkit import core
from . import catalog as C
from . import stacks as S


def gen_c01_stack(rng):
    kind = rng.choice(["tensor", "tensor", "pil", "semseg", "torchwrap", "jointprobe"])
    n = rng.randint(1, 12)
    if kind == "jointprobe":
        # a stateful fused wrapper: members of a jointly loaded group must stem from one and the same load
        return {"root": {"kind": "tensor", "n": n, "clobber": {}, "ctx_tags": True}, "below": [], "seeded": None, "above": [], "concat": None,
                "jointprobe": True}
    if kind == "torchwrap":
        # a plain torch dataset adapted by TorchWrapper: items x and class only, no context
        stack = {"root": {"kind": kind, "n": n, "clobber": {}}, "below": [], "seeded": None, "above": [], "concat": None}
        for _ in range(rng.choice([0, 1, 2])):
            layer = S.gen_layer(rng, n)
            if layer["t"] in ("subset", "shuffle", "repeat", "percent"):
                stack["above"].append(layer)
        if rng.random() < 0.4:
            stack["seeded"] = {"w": "xtw", "seed": rng.randint(0, 99), "transform": {"t": "leaf", "name": rng.choice(["KDAdditiveGaussianNoise", "KDRandomCrop"])}}
        return stack
    stack = {"root": {"kind": kind, "n": n, "clobber": {}, "ctx_tags": True}, "below": [], "seeded": None, "above": [], "concat": None}
    for _ in range(rng.choice([0, 0, 1, 2])):
        stack["below"].append(S.gen_layer(rng, n))
    r = rng.random()
    dom = {"tensor": "T", "pil": "P", "semseg": "T", "torchwrap": "T"}[kind]
    seed = rng.randint(0, 999)
    if kind == "semseg" and r < 0.6:
        stack["seeded"] = {"w": "semseg", "seed": seed, "transforms": rng.sample(["resize", "flip", "pad", "noise"], rng.randint(1, 3))}
    elif r < 0.3:
        names = ["KDRandomResizedCrop", "KDRandomCrop", "KDAdditiveGaussianNoise"] if dom == "T" else ["KDRandomResizedCrop(PIL)", "KDRandomCrop(PIL)", "KDColorJitter"]
        stack["seeded"] = {"w": rng.choice(["xtw", "xtw", "ytw", "source"]), "seed": seed,
                           "transform": {"t": "compose", "items": [{"t": "leaf", "name": rng.choice(names)}, {"t": "save"}]}}
    elif r < 0.5 and dom == "T":
        stack["seeded"] = {"w": "mix", "seed": seed, "p": rng.choice([0.5, 1.0]), "alpha": 0.8}
        if rng.random() < 0.5:
            stack["above_seeded"] = {"w": "xtw", "seed": seed + 1, "transform": {"t": "leaf", "name": "KDAdditiveGaussianNoise"}}
    elif r < 0.6:
        stack["seeded"] = S.gen_seeded(rng, kind)
    fused = bool(stack["seeded"]) and stack["seeded"]["w"] in ("mix", "semseg")
    for _ in range(rng.choice([0, 0, 0, 1, 2])):
        if not fused or rng.random() < 0.15:  # a layer above a fused-operation wrapper is (mostly) refused by the constructor
            stack["above"].append(S.gen_layer(rng, n))
    if rng.random() < 0.15 and not stack.get("above_seeded") and not fused:
        stack["concat"] = {"n": rng.randint(1, 5), "balanced": rng.random() < 0.3}
    return stack


def build_c01(stack):
    import kappadata.transforms as kdt
    from kappadata.datasets import KDConcatDataset
    from .simdata import RootDataset
    # the 'save' pseudo leaf: SaveStateToContextTransform("saved")
    orig_build = C.build

    def build_tree(spec):
        if spec["t"] == "save":
            return kdt.SaveStateToContextTransform("saved")
        if spec["t"] in ("compose", "list"):
            items = [build_tree(s) for s in spec["items"]]
            return kdt.KDComposeTransform(items) if spec["t"] == "compose" else items
        return orig_build(spec)

    sd = stack.get("seeded")
    st2 = dict(stack)
    if sd and "transform" in sd and any(s.get("t") == "save" for s in C.subtrees(sd["transform"])):
        st2 = dict(stack, seeded=None)
        ds = S.build(st2 | {"above": []})
        import kappadata.wrappers as W
        cls = {"xtw": W.XTransformWrapper, "ytw": W.YTransformWrapper, "source": W.SourceTransformWrapper, "target": W.TargetTransformWrapper}[sd["w"]]
        ds = cls(ds, build_tree(sd["transform"]), seed=sd["seed"])
    else:
        ds = S.build(dict(stack, above=[]))
    if stack.get("jointprobe"):
        from .simdata import CountingFusedWrapper
        ds = CountingFusedWrapper(ds, joint=stack.get("jointprobe") != "separate")
    if stack.get("above_seeded"):
        ds = S.apply_seeded(ds, stack["above_seeded"])
    for layer in stack.get("above", []):
        ds = S.apply_layer(ds, layer)
    if stack.get("concat"):
        other = RootDataset(stack["root"]["kind"] if stack["root"]["kind"] != "torchwrap" else "tensor", stack["concat"]["n"], ctx_tags=True, ds_id=1)
        ds = KDConcatDataset([ds, other], balanced_sampling=stack["concat"]["balanced"])
    return ds


def fused_groups(stack):
    g = []
    sd = stack.get("seeded")
    if stack.get("jointprobe"):
        return [["x", "class"]]
    if stack.get("concat"):
        return g
    if sd and sd["w"] == "mix":
        g.append(["x", "class"])
    if sd and sd["w"] == "semseg":
        g.append(["x", "semseg"])
    return g


def gen_mode(rng, stack):
    kind = stack["root"]["kind"]
    items = ["x", "class", "index", "x", "class", "y", "source", "target", "semseg"]
    sd = stack.get("seeded")
    if stack.get("jointprobe"):
        # each fused member at most once (a duplicated member is loaded a second time on its own - for a stateful or
        # unseeded wrapper that copy is by construction another load; observation, not part of the probe)
        base = rng.choice([["x", "class"], ["class", "x"], ["x"], ["class"], ["class", "x"]])
        extra = ["index"] * rng.choice([0, 1, 2])
        mode = list(base)
        for e in extra:
            mode.insert(rng.randrange(len(mode) + 1), e)
        return " ".join(mode)
    if kind == "torchwrap":
        items = ["x", "class", "index", "x", "class"]
        return " ".join(rng.choice(items) for _ in range(rng.choice([1, 1, 2, 2, 3, 4, 6])))
    if sd and sd["w"] == "mix" and rng.random() < 0.85:
        items = ["x", "class", "index", "x", "class"]  # what the outermost (fused) wrapper implements
    if sd and sd["w"] == "semseg" and rng.random() < 0.85:
        items = ["x", "semseg", "index", "x", "semseg"]
    L = rng.choice([1, 1, 2, 2, 3, 3, 4, 5, 6])
    mode = []
    produced_x = False
    for _ in range(L):
        cand = list(items)
        if produced_x:
            cand += ["ctx.root_x", "ctx.root_x", "ctx.last_item", "ctx.last_item"]
            if sd and "transform" in sd and any(s.get("t") == "save" for s in C.subtrees(sd["transform"])) and S.item_of(sd) in mode \
                    and not stack.get("concat") and not stack.get("above_seeded"):
                cand += ["ctx.saved"]
        it = rng.choice(cand)
        mode.append(it)
        if it in ("x", "y", "source", "target"):
            produced_x = True
    return " ".join(mode)


def reference_sample(ds, stack, mode, i, return_ctx):
    """the statement, executed: one context per sample, mode walked left to right, per-item loaders of the stack"""
    items = mode.split(" ")
    need_ctx = return_ctx or any(it.startswith("ctx.") for it in items)
    ctx = {} if need_ctx else None
    out = []
    joint_cache = {}
    groups = [g for g in fused_groups(stack) if all(op in items for op in g)]
    for it in items:
        if it == "index":
            out.append(i)
        elif it.startswith("ctx."):
            out.append(ctx[it[4:]])
        else:
            grp = next((g for g in groups if it in g), None)
            if grp is not None:
                key = "".join(grp)
                if key not in joint_cache:
                    joint_cache[key] = getattr(ds, "getitem_" + key)(i, ctx)  # loaded together once
                out.append(joint_cache[key][grp.index(it)])
            else:
                out.append(getattr(ds, "getitem_" + it)(i, ctx))
    res = out[0] if len(out) == 1 else tuple(out)
    return (res, ctx) if return_ctx else res


class Spec(core.PropSpec):
    prop = "C01"
    level = "exploration"
    rule = ("plans = stack (root tensor/PIL/semseg x subset-family and label layers x optional seeded transform wrapper recording "
            "context / fused-operation wrapper (mix, semseg, transform wrapper above mix) x optional KDConcatDataset) x mode string "
            "(length 1-6 over x/class/index/y/source/target/semseg/ctx.* with duplicates, ctx items after their producer) x "
            "return_ctx x K in 1..3 replicas (simulated loader workers) x access program (int, negative int, slice, index list, "
            "iteration, len; each access assigned to a PRNG-chosen worker) x respawns x ambient clobbers; non-trivial = at "
            "least 2 items in the mode, at least 4 accesses of at least two forms, and some worker performed two or more "
            "accesses; distinct = distinct SHA-256 of (assignment, access list, result hashes)")
    assumptions = ["per-item loaders are pure per index here (seeded wrappers), so 'what the stack's loaders return for sample i' is "
                   "well defined and is computed on a fresh stack in a fresh process",
                   "indices are within -len <= i < len; the variety of mode strings x stacks is configuration sampling, the "
                   "simulation contributes the per-worker access histories, respawn and context isolation"]
    components = {"real": ["ModeWrapper", "KDDataset/KDWrapper/KDSubset/KDConcatDataset", "sample and dataset wrappers", "transforms"],
                  "stub": ["loader worker processes (simkit.simloader.SimWorker replicas)", "root datasets (harness)"]}
    tiers = {"quick": dict(runs=4000, budget_s=45), "thorough": dict(runs=150000, budget_s=600)}

    def gen_plan(self, seed, tier):
        st = core.Streams(seed)
        rw = st("world")
        ro = st("ops")
        stack = gen_c01_stack(rw)
        mode = gen_mode(rw, stack)
        K = ro.choice([1, 2, 2, 3])
        ops = []
        for _ in range(ro.randint(2, 14 if tier == "quick" else 40)):
            r = ro.random()
            w = ro.randrange(K)
            if r < 0.4:
                ops.append(["int", w, ro.randrange(1000)])
            elif r < 0.55:
                ops.append(["neg", w, ro.randrange(1000)])
            elif r < 0.7:
                ops.append(["slice", w, ro.choice([None, 0, 1, -2, 3]), ro.choice([None, 2, -1, 5, 100]), ro.choice([None, None, 2, -1])])
            elif r < 0.82:
                ops.append(["list", w, [ro.randrange(-1000, 1000) for _ in range(ro.randint(0, 4))]])
            elif r < 0.9:
                ops.append(["iter", w])
            elif r < 0.94:
                ops.append(["len", w])
            elif r < 0.97:
                ops.append(["respawn", w])
            else:
                ops.append(["clobber", w, ro.choice(["np", "torch", "py"]), ro.randint(0, 99)])
        if ro.random() < 0.3:
            # fault: the storage behind the root fails transiently at some accesses (every worker replica counts its own)
            stack["root"]["fail_at"] = sorted({ro.randint(1, 12) for _ in range(ro.randint(1, 3))})
        return dict(stack=stack, mode=mode, return_ctx=rw.random() < 0.5, K=K, ops=ops, base_seed=ro.randint(0, 2 ** 40),
                    amb_main=rw.getrandbits(30), amb_ref=rw.getrandbits(30), hook=ro.random() < 0.7,
                    earlier_mw=core.Streams(seed)("earlier").random() < 0.3)

    def shrink_candidates(self, plan):
        st = plan["stack"]
        for key in ("above", "below"):
            if st[key]:
                yield core._set(plan, ["stack", key], [])
        if st.get("concat"):
            yield core._set(plan, ["stack", "concat"], None)
        if st.get("above_seeded"):
            yield core._set(plan, ["stack", "above_seeded"], None)
        if plan["return_ctx"]:
            yield dict(plan, return_ctx=False)
        items = plan["mode"].split(" ")
        for i in range(len(items)):
            if len(items) > 1:
                yield dict(plan, mode=" ".join(items[:i] + items[i + 1:]))
        yield from core.generic_candidates(plan, [["ops"]], [(["K"], 1), (["stack", "root", "n"], 1)])

    @staticmethod
    def _joint_consistency(got, exp, mode, rc):
        """jointprobe stacks: kinds/indices must equal the reference's; where the mode contains both x and class, every delivered x
        and class of one sample must carry the same load number (they equal what loading them together once yields)"""
        items = mode.split(" ")
        single = not isinstance(exp, list)
        gs, es = ([got], [exp]) if single else (got, exp)
        if not isinstance(gs, list) or len(gs) != len(es):
            return f"{len(gs) if isinstance(gs, list) else type(gs).__name__} samples, expected {len(es)}"
        for g, e in zip(gs, es):
            if isinstance(e, int) and not isinstance(g, tuple):
                if g != e:
                    return f"{g} vs {e}"
                continue
            if rc:
                g, e = g[0], e[0]
            gi = [g] if len(items) == 1 else list(g)
            ei = [e] if len(items) == 1 else list(e)
            if len(gi) != len(ei):
                return f"{len(gi)} items, expected {len(ei)}"
            loads = set()
            for a, b, it in zip(gi, ei, items):
                if it == "index":
                    if a != b:
                        return f"index {a} vs {b}"
                    continue
                if not (isinstance(a, tuple) and len(a) == 3) or a[:2] != b[:2]:
                    return f"item {it}: {a} vs expected kind/index {b[:2] if isinstance(b, tuple) else b}"
                if "x" in items and "class" in items:
                    loads.add(a[2])
            if len(loads) > 1:
                return f"x and class of one sample stem from different loads {sorted(loads)}: {gi}"
        return None

    def execute(self, plan):
        from types import SimpleNamespace
        import numpy as np
        import torch
        from kappadata.wrappers import ModeWrapper
        from simkit.deep import deep_diff, h
        from simkit.simloader import SimWorker
        from simkit.simproc import SimProcess
        from .simdata import InjectedReadError
        out = core.Outcome()
        stack, mode, rc = plan["stack"], plan["mode"], plan["return_ctx"]
        site = ("fused" if fused_groups(stack) or stack.get("above_seeded") else "plain") + (",concat" if stack.get("concat") else "")
        main = SimProcess("main", plan["amb_main"])
        if plan.get("earlier_mw"):
            # earlier, unrelated use in the same process: a mode wrapper with the same mode string over a stack with the same outer
            # layers but the opposite fused-loading declaration (whatever the library remembers of it must not reach the next one)
            sd_ = stack.get("seeded")
            if stack.get("jointprobe"):
                variant = dict(stack, jointprobe="separate")  # same wrapper class, configured to load the items one by one
            elif sd_ and sd_.get("w") in ("mix", "semseg"):
                variant = dict(stack, seeded=None)
            else:
                variant = dict(stack, jointprobe=True)
            try:
                with main.on_cpu():
                    old_mw = ModeWrapper(build_c01(variant), mode=mode, return_ctx=rc)
                    old_mw[0]
                out.count("fault:earlier_unrelated_mode_wrapper_in_same_process")
            except Exception:
                out.count("earlier_mode_wrapper_refused")
            old_mw = None
        try:
            with main.on_cpu():
                mw = ModeWrapper(build_c01(stack), mode=mode, return_ctx=rc)
                n = len(mw)
        except AssertionError as e:
            out.rejected = True
            out.ev("rejected", str(e)[:60])
            return out
        except Exception as e:
            out.rejected = True
            out.count("rejected:" + type(e).__name__)
            out.ev("rejected", type(e).__name__, str(e)[:60])
            return out
        refs = {}
        clean_stack = dict(stack, root=dict(stack["root"], fail_at=[]))

        def ref(i):
            if i not in refs:
                p = SimProcess("ref", plan["amb_ref"] + 13 * i + 1)
                with p.on_cpu():
                    refs[i] = reference_sample(build_c01(clean_stack), stack, mode, i, rc)
            return refs[i]

        # the length the statement implies: the stack's own length
        try:
            with SimProcess("ref", plan["amb_ref"]).on_cpu():
                n_ref = len(build_c01(clean_stack))
            if n > 0:
                ref(0)
        except AssertionError:
            out.rejected = True
            out.count("rejected:assertion_on_fresh_access")
            return out
        except Exception as e:
            out.rejected = True
            out.count("rejected:fresh_access_" + type(e).__name__)
            out.ev("rejected", type(e).__name__, str(e)[:80])
            return out
        K = plan["K"]
        spawned = [0] * K

        def spawn(w):
            spawned[w] += 1
            loader = SimpleNamespace(dataset=mw, collate_fn=None, init_fn=mw.worker_init_fn if plan["hook"] else None, K=K,
                                     pre_init_probe=None, post_init_probe=None)
            with main.on_cpu():
                return SimWorker(loader, w, plan["base_seed"] + 1000 * spawned[w], plan["amb_main"] + w)

        try:
            workers = [spawn(w) for w in range(K)]
        except Exception as e:
            out.violate(f"C01:raises:{type(e).__name__}", site, f"creating a worker replica: {type(e).__name__}: {e}")
            return out
        per_worker = [0] * K
        forms = set()
        n_acc = 0
        for op in plan["ops"]:
            kind, w = op[0], op[1]
            if kind == "respawn":
                workers[w] = spawn(w)
                out.count("fault:worker_respawn")
                continue
            if kind == "clobber":
                workers[w].proc.clobber(op[2], op[3])
                out.count("fault:ambient_rng_clobber")
                continue
            rep = workers[w].dataset
            try:
                with workers[w].proc.on_cpu():
                    if kind == "int":
                        if n == 0:
                            continue
                        i = op[2] % n
                        # samplers hand over numpy / torch integers as often as python ints
                        form = op[2] % 3
                        ii = i if form == 0 else (np.int64(i) if form == 1 else int(torch.tensor(i)))
                        got, exp = rep[ii], ref(i)
                    elif kind == "neg":
                        if n == 0:
                            continue
                        i = -(op[2] % n) - 1
                        got, exp = rep[i], ref(n + i)
                    elif kind == "slice":
                        sl = slice(op[2], op[3], op[4])
                        got, exp = rep[sl], [ref(j) for j in range(n)[sl]]
                    elif kind == "list":
                        if n == 0:
                            continue
                        idxs = [(j % n) if j >= 0 else -((-j - 1) % n) - 1 for j in op[2]]
                        as_np = [np.int64(j) for j in idxs] if len(idxs) % 2 else idxs
                        got, exp = rep[as_np], [ref(j if j >= 0 else n + j) for j in idxs]
                    elif kind == "iter":
                        got, exp = list(rep), [ref(j) for j in range(n)]
                    else:
                        got, exp = len(rep), n_ref
            except Exception as e:
                if core.caused_by(e, InjectedReadError):
                    out.count("fault:transient_read_error_in_root")
                    out.ev("io-error", op)
                    continue  # the access failed (that is allowed); what comes after it must be right again
                out.violate(f"C01:raises:{type(e).__name__}", f"{kind},{site}", f"stack={S.sig(stack)} mode='{mode}' access {op}: {type(e).__name__}: {e}")
                out.ev("raised", op, type(e).__name__)
                break
            n_acc += 1
            per_worker[w] += 1
            forms.add(kind)
            out.ev("acc", op, h(got))
            if stack.get("jointprobe"):
                try:
                    d = self._joint_consistency(got, exp, mode, rc)
                except Exception as e:  # a malformed result is a mismatch, not a harness problem
                    d = f"malformed result {str(got)[:120]} ({type(e).__name__}: {e})"
                if d:
                    out.violate("C01:fused-members-not-from-one-joint-load", f"{kind},fused", f"mode='{mode}' return_ctx={rc} access {op}: {d}")
                    break
                continue
            d = deep_diff(got, exp)
            if d:
                # classify: context leak vs value/order
                cls = "C01:wrong-items-or-order"
                if rc and ".tag" in d or "keys differ" in d:
                    cls = "C01:context-carries-foreign-entries"
                out.violate(cls, f"{kind},{site}", f"stack={S.sig(stack)} mode='{mode}' return_ctx={rc} access {op} on worker {w}: {d}")
                break
        out.count("logical:accesses", n_acc)
        n_items = len(mode.split(" "))
        out.tags.append(site)
        if any(it.startswith("ctx.") for it in mode.split(" ")):
            out.tags.append("ctx-item-in-mode")
        for f in forms:
            out.tags.append("form:" + f)
        out.nontrivial = n_items >= 2 and n_acc >= 4 and len(forms) >= 2 and max(per_worker) >= 2
        return out


SPEC = Spec()

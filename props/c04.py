"""C04 - interleaved scheduler: main stream, batch cutting and stopping point are exact.

Fault-free run class of the simtrainer world: the history of the real
InterleavedSampler (events logged by the instrumented main sampler and by the
consumer) is projected onto the main stream and compared with the reference
model; termination is a bounded-liveness check (the generator is `while True`).
"""
from simkit import core
from . import iltrain as T


class Spec(core.PropSpec):
    prop = "C04"
    level = "exploration"
    rule = ("plans = seeded worlds (N, M, B, drop_last, drop_last_batch_size, budget kind/value, 0-4 side configs of any "
            "interval kinds, main order seq/epoch-seeded permutation/no set_epoch) driven through the raw sampler or the "
            "batch cutter; non-trivial = budget>0 and at least 2 main updates and at least one epoch boundary or side "
            "pass in between; distinct = distinct SHA-256 of the event history")
    assumptions = ["main samplers yield exactly len(sampler) indices (domain of the property)",
                   "side passes are judged by C05; C04 compares the projection onto main-stream events"]
    components = {"real": ["kappadata.samplers.interleaved_sampler.InterleavedSampler", "_InterleavedBatchSampler"],
                  "stub": ["main/side samplers (instrumented peers, user objects by contract)"]}
    tiers = {"quick": dict(runs=40000, budget_s=40), "thorough": dict(runs=1500000, budget_s=600)}
    shrink_lists = T.SHRINK_LISTS
    shrink_ints = T.SHRINK_INTS

    def gen_plan(self, seed, tier):
        st = core.Streams(seed)
        w = T.gen_world(st("world"), max_n=40 if tier == "quick" else 96, max_cfg=4 if tier == "quick" else 6)
        ro = st("ops")
        plan = dict(world=w, via=ro.choice(["sampler", "batch_sampler"]), reiterate=ro.random() < 0.3,
                    foreign_epoch=ro.choice([None, None, None, 97]), peek=ro.choice([None, None, None, 1, 3]))
        rc = st("company")
        plan["company"] = T.gen_company(rc, w) if w["configs"] and rc.random() < 0.2 else None
        plan["overlap"] = [[rc.randint(0, 12), rc.randint(1, 4)] for _ in range(rc.randint(1, 2))] if rc.random() < 0.2 else None
        plan["ship"] = core.Streams(seed)("ship").random() < 0.2
        # a side sampler fails in the middle of one of its passes (mutually exclusive with the above: they iterate the same samplers)
        plan["side_fault"] = dict(ci=rc.randint(0, 5), p=rc.choice([0, 0, 1, 2]), k=rc.randint(0, 5)) \
            if w["configs"] and not plan["company"] and not plan["overlap"] and not plan["peek"] and not plan["reiterate"] and rc.random() < 0.25 else None
        return plan

    def shrink_candidates(self, plan):
        if plan.get("company"):
            yield dict(plan, company=None)
        if plan.get("overlap"):
            yield dict(plan, overlap=None)
        if plan.get("ship"):
            yield dict(plan, ship=False)
        if plan.get("side_fault"):
            yield dict(plan, side_fault=None)
            for f in ("p", "k"):
                if plan["side_fault"][f] > 0:
                    yield dict(plan, side_fault=dict(plan["side_fault"], **{f: plan["side_fault"][f] - 1}))
        yield from T.world_candidates(plan)
        yield from super().shrink_candidates(plan)

    def execute(self, plan):
        out = core.Outcome()
        w = plan["world"]
        if not T.valid_world(w):
            out.rejected = True
            return out
        ref = T.reference(w)
        if ref is None:
            out.rejected = True
            return out
        cap = len(ref) + 50
        try:
            if plan.get("peek"):
                # somebody looks at the first batch (or the first index) and abandons that iteration, then the real pass starts
                T.run_sampler(w, via=plan["via"], cap=plan["peek"], foreign_epoch=plan.get("foreign_epoch"))
                s_obj, s_log = T.run_sampler.last
                out.count("fault:peek_then_iterate")
                hist, terminated = T.run_sampler(w, via=plan["via"], cap=cap, sampler=s_obj, log=s_log)
            else:
                hist, terminated = T.run_sampler(w, via=plan["via"], cap=cap, foreign_epoch=plan.get("foreign_epoch"),
                                                 company=plan.get("company"), overlap=plan.get("overlap"), side_fault=plan.get("side_fault"),
                                                 ship=bool(plan.get("ship")))
                if plan.get("ship"):
                    out.count("fault:sampler_object_copied_before_use")
                if plan.get("company"):
                    out.count("fault:config_objects_shared_with_second_sampler")
                if plan.get("overlap"):
                    out.count("fault:overlapping_iteration_of_same_object")
            hist = list(hist)
            if plan.get("reiterate") and terminated:
                # iterating the same sampler object again must give the same stream (every pass starts at the start epoch)
                s_obj, s_log = T.run_sampler.last
                hist2, term2 = T.run_sampler(w, via=plan["via"], cap=cap, sampler=s_obj, log=s_log)
                out.count("fault:reiteration_of_same_object")
                if not term2 or list(hist2) != hist:
                    d2 = T.first_diff(T.main_projection(list(hist2), w["M"]), T.main_projection(T.reference(w), w["M"]))
                    if d2 or not term2:
                        out.violate("C04:second-pass-differs", f"budget={w['budget'][0]}", f"second iteration of the same InterleavedSampler object: {d2 or 'does not terminate'}")
        except T.Rejected as e:
            out.rejected = True
            out.ev("rejected", str(e)[:80])
            return out
        except Exception as e:
            out.violate("C04:raises:" + type(e).__name__, f"budget={w['budget'][0]}", f"{type(e).__name__}: {e}")
            out.ev("raised", type(e).__name__)
            return out
        out.events = hist
        M = w["M"]
        loud = bool(hist) and hist[-1] == ["raised"]
        hist = [e for e in hist if e not in (["raised"], ["side-sampler-fails"])]
        got = T.main_projection(hist, M)
        exp = T.main_projection(ref, M)
        site = f"budget={w['budget'][0]},drop_last={int(w['drop_last'])}"
        if any(e == ["side-sampler-fails"] for e in out.events):
            out.count("fault:side_sampler_fails_mid_pass")
        if loud:
            # the stream ended with the injected error: everything handed out before must be a prefix of the fault-free stream
            out.count("side_sampler_failure_ended_the_stream_loudly")
            if exp[:len(got)] != got:
                out.violate("C04:main-stream-mismatch", site, "before the injected side-sampler failure: " + str(T.first_diff(got, exp[:len(got)])))
        elif not terminated:
            out.violate("C04:no-termination", site, f"more than {cap} indices yielded; reference history has {len(ref)} events")
        else:
            d = T.first_diff(got, exp)
            if d:
                # classify: stopping point vs content
                if got[:len(exp)] == exp:
                    cls = "C04:stops-late"
                elif exp[:len(got)] == got:
                    cls = "C04:stops-early"
                else:
                    cls = "C04:main-stream-mismatch"
                out.violate(cls, site, d)
            # the stream must end on a batch boundary
            outs = [e for e in hist if e[0] == "out"]
            if outs and not outs[-1][2]:
                out.violate("C04:ends-inside-batch", site, f"last yielded index {outs[-1]} is not flagged as batch end")
        n_upd = sum(1 for e in exp if e[0] == "out" and e[2])
        n_ep = sum(1 for e in exp if e[0] == "iter")
        out.count("logical:main_updates", n_upd)
        out.count("logical:epochs", n_ep)
        out.count("logical:events", len(hist))
        if w["budget"][1] == 0:
            out.tags.append("zero-budget")
        if w["N"] % w["B"]:
            out.tags.append("short-last-batch" if not w["drop_last"] else "dropped-remainder")
        if w["dlbs"]:
            out.tags.append("drop_last_batch_size")
        if w["main_kind"] == "dist":
            out.tags.append("real-distributed-main-sampler")
        if plan.get("foreign_epoch") is not None:
            out.tags.append("foreign-epoch-state-before-run")
        if n_ep > 1:
            out.tags.append("crossed-epoch-boundary")
        if any(e[0] == "out" and e[1] >= M for e in hist):
            out.tags.append("side-pass-between-main-updates")
        out.tags.append("budget:" + w["budget"][0])
        out.nontrivial = w["budget"][1] > 0 and n_upd >= 2 and (n_ep > 1 or any(e[0] == "out" and e[1] >= M for e in hist))
        return out


SPEC = Spec()

"""C20 - global-to-local copy is crash-safe and idempotent (flagship, simfs engine).

System: copy_folder_from_global_to_local / copy_imagefolder_from_global_to_local on the crashable in-memory
file system; joblib.Parallel replaced by baton-scheduled unzip jobs.
Two plan modes:
  sweep    - for one seeded world, EVERY single crash point k over the N mutation primitives of the first
             copy (kill, and torn variant on content writes) followed by clean calls; plus, for two seeded first
             crash points k1, every crash point k2 of the recovery attempt (double interruption);
  sequence - 1..4 interrupted attempts mixing kill / torn / EIO / ENOSPC at anchored or absolute points, then
             clean calls; listing order and unzip interleaving drawn per attempt.
Oracle after every call that returns normally: see `judge`.
"""
import os

from simkit import core

MARKER_HINTS = ("autocopy_start.txt", "autocopy_end.txt")
G, L = "/g", "/l"


# ----------------------------------------------------------------------------------------------
# world
# ----------------------------------------------------------------------------------------------
def gen_world(rng):
    fn = rng.choice(["folder", "folder", "image_folder"])
    fmt = rng.choice(["raw", "zip", "zips"])
    dirs = ["", "a", "a/b", "c", "d/e/f"]
    files = []
    names = set()
    for i in range(rng.randint(1, 7) if fmt != "zips" else rng.randint(2, 9)):
        d = rng.choice(dirs)
        name = f"f{i}.{rng.choice(['txt', 'bin', 'JPEG'])}"
        p = f"{d}/{name}" if d else name
        names.add(p)
        files.append([p, rng.choice([0, 1, 5, 17, 300, 20000]), rng.randint(1, 255)])
    if fmt == "zips" and fn == "image_folder":
        # class-wise zips: paths inside the zip are images of that class
        files = [[os.path.basename(p), s, b] for p, s, b in files]
    rel = rng.choice([None, "ds", "sub/ds"])
    rel_arg = rel
    if fn == "image_folder" and fmt == "zip" and rel is not None and rng.random() < 0.5:
        rel_arg = rel + ".zip"  # the image-folder variant accepts the zip's own name as relative path
    w = dict(fn=fn, fmt=fmt, relative=rel, relative_arg=rel_arg, num_workers=rng.choice([0, 0, 1, 2, 3]),
             dst_initial=rng.choice(["absent", "absent", "absent", "parent", "empty", "content"]), files=files,
             empty_dirs=(["emp"] if fmt == "raw" and rng.random() < 0.3 else []),
             n_zips=rng.randint(1, 4) if fmt != "zips" else rng.randint(1, 6), readme=rng.random() < 0.4,
             tmp_other_device=rng.random() < 0.25)
    return w


def paths(w):
    rel = w["relative"]
    if rel is None:
        return f"{G}/data", f"{L}/data", f"{G}/data", f"{L}/data"
    return G, L, f"{G}/{rel}", f"{L}/{rel}"


def content(size, byte):
    return bytes([(byte + i) % 256 for i in range(min(size, 64))]) + bytes([byte]) * max(0, size - 64)


def build_source(m, w):
    """creates the global side; returns the expected extraction {relpath: bytes|None}"""
    import zipfile
    gp, lp, src, dst = paths(w)
    fs = m.fs
    expected = {}

    def add_dirs(p):
        parts = p.split("/")[:-1]
        for i in range(1, len(parts) + 1):
            expected["/".join(parts[:i])] = None

    fmt = w["fmt"]
    if fmt == "raw":
        fs.create_dir(src)
        for p, s, b in w["files"]:
            fs.create_file(f"{src}/{p}", contents=content(s, b))
            expected[p] = content(s, b)
            add_dirs(p)
        for d in w["empty_dirs"]:
            fs.create_dir(f"{src}/{d}")
            expected[d] = None
    elif fmt == "zip":
        fs.create_dir(os.path.dirname(src))
        with zipfile.ZipFile(src + ".zip", "w") as z:
            for p, s, b in w["files"]:
                z.writestr(p, content(s, b))
                expected[p] = content(s, b)
                add_dirs(p)
    else:
        fs.create_dir(src)
        nz = max(1, min(w["n_zips"], len(w["files"])))
        groups = [[] for _ in range(nz)]
        for i, f in enumerate(w["files"]):
            groups[i % nz].append(f)
        for j, g in enumerate(groups):
            with zipfile.ZipFile(f"{src}/part{j}.zip", "w") as z:
                for p, s, b in g:
                    z.writestr(p, content(s, b))
                    q = f"part{j}/{p}" if w["fn"] == "image_folder" else p
                    expected[q] = content(s, b)
                    add_dirs(q)
        if w["readme"] and nz >= 2:
            fs.create_file(f"{src}/README.md", contents=b"about")
    return expected


USER_CONTENT = {"mine.txt": b"user data", "keep": None, "keep/x.bin": b"\x00\x01", "f0.txt": b"clashes with a source name"}


def build_local(m, w):
    gp, lp, src, dst = paths(w)
    di = w["dst_initial"]
    if di == "parent":
        m.fs.create_dir(os.path.dirname(dst))
    elif di == "empty":
        m.fs.create_dir(dst)
    elif di == "content":
        m.fs.create_dir(dst)
        for p, c in USER_CONTENT.items():
            if c is None:
                m.fs.create_dir(f"{dst}/{p}")
            else:
                m.fs.create_file(f"{dst}/{p}", contents=c)


def wipe_local(m, w):
    import shutil
    if os.path.exists(L):
        shutil.rmtree(L)
    build_local(m, w)


def classifier(w, expected):
    gp, lp, src, dst = paths(w)

    def role(path):
        path = path.split("->")[-1]
        if path == dst:
            return "dst"
        if dst.startswith(path.rstrip("/") + "/"):
            return "ancestor"
        if path.startswith(dst + "/"):
            rel = path[len(dst) + 1:]
            if "/" not in rel and rel not in expected:
                return "marker"
            return "data"
        return "other"

    return role


def call_fn(w, num_workers=None, as_path=False):
    from pathlib import Path
    from kappadata.copying.folder import copy_folder_from_global_to_local
    from kappadata.copying.image_folder import copy_imagefolder_from_global_to_local
    fn = copy_folder_from_global_to_local if w["fn"] == "folder" else copy_imagefolder_from_global_to_local
    gp, lp, src, dst = paths(w)
    nw = w["num_workers"] if num_workers is None else num_workers
    if as_path:
        return lambda: fn(Path(gp), Path(lp), relative_path=w.get("relative_arg", w["relative"]), num_workers=nw)
    return lambda: fn(gp, lp, relative_path=w.get("relative_arg", w["relative"]), num_workers=nw)


# ----------------------------------------------------------------------------------------------
# oracle
# ----------------------------------------------------------------------------------------------
class HistoryEnded(Exception):
    """the leftover clause had to re-run the history on a wiped local folder: nothing more can be asked of this history"""


class State:
    """what the harness knows about the history of the local folder (black box: only call outcomes)"""

    def __init__(self, w, expected):
        self.user_provided = w["dst_initial"] in ("empty", "content")
        self.user_tree = ({} if w["dst_initial"] == "empty" else dict(USER_CONTENT)) if self.user_provided else None
        self.leftovers = False
        self.before_paths = set()
        self.role = lambda p: '?'
        self.before_complete = False
        self.completed = False  # an earlier call returned normally after performing the automatic copy
        self.expected = expected
        self.w = w
        self.allowed_extras = None  # top-level non-source files an UNINTERRUPTED automatic copy leaves behind (its markers)
        self.suspects = set()  # top-level non-source files created by interrupted attempts and not rewritten / removed since
        self.pending_left = None
        self.trail = []  # (callable, fault, list seed, sched seed) of every attempt of this history


def judge(out, st, att, dst, src_before, src_after, history, site):
    """att: result of SimMachine.attempt for a call; only normal returns carry obligations"""
    from simkit.simfs import snapshot
    if src_before != src_after:
        out.violate("C20:source-modified", site, f"history={history}")
    tree = snapshot(dst)
    if att["status"] != "ok":
        if tree is not None:
            st.suspects |= {k for k, v in tree.items() if "/" not in k and v is not None and k not in st.expected and k not in st.before_paths}
        return
    res = att["result"]
    # whatever this (normally returning) call wrote, created, renamed or removed itself is its own business, not a leftover
    mine = {p[len(dst) + 1:] for e in att["log"] for p in e[1].split("->") if p.startswith(dst + "/")}
    st.suspects -= mine
    n_mut = att["prims"]
    # only the removal of something an EARLIER attempt left behind obliges was_deleted=True (an implementation may
    # create and remove its own temporary entries); only data / the folder itself count as "redone or touched"
    pre = st.before_paths
    rm_below = any(e[0] == "rm" and (e[1] == dst or (e[1].startswith(dst + "/") and e[1][len(dst) + 1:] in pre)) for e in att["log"])
    role = st.role
    touched_data = [e for e in att["log"] if any(role(p) in ("data", "dst") for p in e[1].split("->"))]
    was_copied = bool(getattr(res, "was_copied", None))
    was_deleted = bool(getattr(res, "was_deleted", None))
    if st.user_provided:
        if tree != st.user_tree:
            out.violate("C20:user-folder-touched", site, f"history={history}: {_tree_diff(tree, st.user_tree)}")
        if was_copied or was_deleted:
            out.violate("C20:untruthful-result", site, f"history={history}: user-provided folder but result={res}")
        below = [e for e in att["log"] if any(p == dst or p.startswith(dst + "/") for p in e[1].split("->"))]
        if below:
            out.violate("C20:user-folder-touched", site, f"history={history}: {len(below)} mutation primitives in the user's folder {below[:4]}")
        return
    # automatic copy
    if tree is None:
        out.violate("C20:incomplete-copy-reported-usable", site, f"history={history}: returned normally but {dst} does not exist")
        return
    data = {k: v for k, v in tree.items() if not ("/" not in k and v is not None and k not in st.expected)}
    if data != st.expected:
        cls = "C20:incomplete-copy-reported-usable" if not st.completed else "C20:completed-copy-damaged"
        out.violate(cls, site, f"history={history} result={res}: {_tree_diff(data, st.expected)}")
        return
    if st.allowed_extras is not None:
        # recovery equivalence: whatever else lies in the folder must be what an uninterrupted copy leaves there too (markers);
        # a staging file or temporary entry of a killed attempt that survives completion makes the folder differ from the source
        extras = {k for k, v in tree.items() if "/" not in k and v is not None and k not in st.expected}
        # ... and only entries created by an interrupted attempt that no normally returning call has rewritten or removed since
        left = sorted(k for k in extras - st.allowed_extras if k in st.suspects)
        if left:
            # decided by the caller (needs a re-run of the history with the last interrupted attempt NOT interrupted)
            st.pending_left = (left, {k: len(tree[k]) for k in left}, res, list(history))
    if st.completed:
        if touched_data:
            out.violate("C20:completed-copy-redone-or-touched", site,
                        f"history={history}: {len(touched_data)} mutation primitives on the data of a completed copy: {touched_data[:4]}")
        if was_copied or was_deleted:
            out.violate("C20:untruthful-result", site, f"history={history}: copy was already complete but result={res}")
    else:
        # did THIS call perform the copy?  yes if it turned an incomplete folder into the complete one; if the data
        # was already complete when it started (a killed attempt got that far) it did iff it touched the folder
        mut_dst = any(p == dst or p.startswith(dst + "/") for e in att["log"] for p in e[1].split("->"))
        performed = mut_dst if st.before_complete else True
        if was_copied != performed:
            out.violate("C20:untruthful-result", site, f"history={history}: this call {'performed' if performed else 'did not perform'} the copy but result={res}")
        elif was_copied:
            w = st.w
            if w["fn"] == "folder":
                if getattr(res, "source_format", None) != w["fmt"]:
                    out.violate("C20:untruthful-result", site, f"history={history}: source_format={getattr(res, 'source_format', None)} for a {w['fmt']} source")
            else:
                if bool(res.was_zip) != (w["fmt"] == "zip") or bool(res.was_zip_classwise) != (w["fmt"] == "zips"):
                    out.violate("C20:untruthful-result", site, f"history={history}: {res} for a {w['fmt']} source")
        had_leftovers = st.leftovers
        if rm_below and not was_deleted:
            out.violate("C20:untruthful-result", site, f"history={history}: entries below {dst} were removed but was_deleted=False")
        if was_deleted and not had_leftovers:
            out.violate("C20:untruthful-result", site, f"history={history}: was_deleted=True but no interrupted attempt had left anything at {dst}")
        st.completed = True


def _tree_diff(got, exp):
    if got is None:
        return "tree missing"
    missing = sorted(set(exp) - set(got))
    extra = sorted(set(got) - set(exp))
    differ = sorted(k for k in set(exp) & set(got) if exp[k] != got[k])
    return f"missing={missing[:4]} extra={extra[:4]} differing={[(k, len(got[k] or b''), len(exp[k] or b'')) for k in differ[:3]]}"


# ----------------------------------------------------------------------------------------------
def gen_fault(rng, approx_n):
    kind = rng.choice(["kill", "kill", "kill", "torn", "eio", "enospc", "corrupt"])
    if kind == "corrupt":
        return dict(kind="corrupt", which=rng.randrange(8), keep=rng.choice([0.3, 0.6, 0.9]))
    r = rng.random()
    if r < 0.45:
        f = dict(kind=kind, at=rng.randint(0, max(1, approx_n)))
    else:
        match = rng.choice([dict(role="dst"), dict(role="marker"), dict(role="marker", kind="write"), dict(kind="rm"),
                            dict(kind="rm", role="marker"), dict(role="data", kind="add"), dict(role="data", kind="write"),
                            dict(role="other"), dict(kind="rename"), dict(role="ancestor")])
        f = dict(kind=kind, match=match, nth=rng.choice([0, 0, 0, 1, 2]), after=rng.random() < 0.6)
    if kind == "torn":
        f["frac"] = rng.choice([0.0, 0.3, 0.5, 0.9])
    return f


class Spec(core.PropSpec):
    prop = "C20"
    level = "fault_enumeration"
    rule = ("plans = seeded worlds (function folder/image_folder x source format raw/zip/zips x relative_path none/one/two "
            "levels x num_workers 0..3 x local destination absent/parent-only/user-empty/user-content x random file tree) in "
            "two modes: 'sweep' enumerates EVERY single crash point of the first copy (kill; torn variant on content writes) "
            "and every crash point of the recovery attempt after two seeded first crashes; 'sequence' injects 1..4 "
            "interrupted attempts (kill/torn/EIO/ENOSPC at absolute or anchored primitives) before clean calls; listing "
            "order and unzip-job interleaving are drawn per attempt.  non-trivial = at least one fault fired inside a "
            "copy (not idle) and a later call returned normally and was judged; distinct = distinct SHA-256 of the "
            "recorded history (primitive logs, fault positions, verdict inputs)")
    assumptions = ["kill = process death: completed FS primitives persist, nothing else is written (no power-loss / lost un-synced data)",
                   "rename is atomic; mkdir, unlink, create and one content flush are single primitives",
                   "joblib workers die with their parent (orphaned writers are not modelled)",
                   "top-level files of the local folder that have no counterpart in the source are bookkeeping and ignored"]
    components = {"real": ["kappadata.copying.folder", "kappadata.copying.image_folder", "kappadata.copying.copying_utils",
                           "python shutil/zipfile/pathlib on the fake os"],
                  "stub": ["kernel file system (pyfakefs 6.2.0, vendored) with intercepted mutation primitives",
                           "joblib.Parallel (baton-scheduled threads yielding at FS primitives)"]}
    tiers = {"quick": dict(runs=256, budget_s=40), "thorough": dict(runs=16000, budget_s=900)}
    determinism_sample = 4

    def extra_evidence(self, tier, seed):
        sv = validate_against_real_fs(12 if tier == "quick" else 120, seed)
        return {"stub_validation": sv, "traces_validated_against_impl": sv["fault_free_worlds_compared_with_real_file_system"]}

    def gen_plan(self, seed, tier):
        st = core.Streams(seed)
        w = gen_world(st("world"))
        rf = st("faults")
        mode = rf.choice(["sweep", "sequence", "sequence"])
        plan = dict(world=w, mode=mode, list_seed=rf.getrandbits(24), sched_seed=rf.getrandbits(24), vary_calls=rf.random() < 0.3,
                    vary_seed=rf.randrange(6))
        if mode == "sweep":
            plan["sweep_only"] = None
            plan["k1s"] = [rf.randint(0, 40), rf.randint(0, 12)] + ([rf.randint(0, 60), rf.randint(0, 25)] if tier != "quick" else [])
            plan["sweep_io_errors"] = rf.random() < 0.35  # additionally EIO / ENOSPC at every primitive
        else:
            plan["attempts"] = [gen_fault(rf, 45) for _ in range(rf.choice([1, 1, 2, 2, 3, 4] + ([5, 6] if tier != "quick" else [])))]
            plan["clean_calls"] = rf.choice([1, 2, 2, 3])
        return plan

    def shrink_candidates(self, plan):
        w = plan["world"]
        if plan["mode"] == "sweep" and plan.get("sweep_only") is None:
            # turn the sweep into its single failing point (tried one by one)
            for k in range(0, 160):
                yield dict(plan, sweep_only=[["k", k]])
                yield dict(plan, sweep_only=[["t", k]])
                if plan.get("sweep_io_errors"):
                    yield dict(plan, sweep_only=[["e", k]])
            for i in range(len(plan["k1s"])):
                for k2 in range(0, 160):
                    yield dict(plan, sweep_only=[["kk", plan["k1s"][i], k2]])
            return
        if plan["mode"] == "sweep" and plan["sweep_only"] and plan["sweep_only"][0][0] in ("k", "t", "kk", "e"):
            so = plan["sweep_only"][0]
            if so[0] == "kk":
                yield dict(world=w, mode="sequence", list_seed=plan["list_seed"], sched_seed=plan["sched_seed"],
                           attempts=[dict(kind="kill", at=so[1]), dict(kind="kill", at=so[2])], clean_calls=2)
            else:
                f = dict(kind={"k": "kill", "t": "torn", "e": "eio" if so[1] % 2 else "enospc"}[so[0]], at=so[1])
                if so[0] == "t":
                    f["frac"] = 0.5
                yield dict(world=w, mode="sequence", list_seed=plan["list_seed"], sched_seed=plan["sched_seed"],
                           attempts=[f], clean_calls=2)
        if plan.get("vary_calls"):
            yield dict(plan, vary_calls=False)
        if w["relative"] is not None:
            q = core._set(plan, ["world", "relative"], None)
            q["world"]["relative_arg"] = None
            yield q
        if w["num_workers"]:
            yield core._set(plan, ["world", "num_workers"], 0)
        if w.get("tmp_other_device"):
            yield core._set(plan, ["world", "tmp_other_device"], False)
        if w["dst_initial"] != "absent":
            yield core._set(plan, ["world", "dst_initial"], "absent")
        if w["fmt"] != "raw":
            yield core._set(plan, ["world", "fmt"], "raw")
        if w["readme"]:
            yield core._set(plan, ["world", "readme"], False)
        if w["empty_dirs"]:
            yield core._set(plan, ["world", "empty_dirs"], [])
        if plan.get("list_seed"):
            yield dict(plan, list_seed=0)
        for i, (p, s, b) in enumerate(w["files"]):
            if "/" in p:
                yield core._set(plan, ["world", "files", i, 0], os.path.basename(p))
        yield from core.generic_candidates(plan, [["attempts"], ["world", "files"]],
                                           [(["world", "files", "*", 1], 0), (["clean_calls"], 1), (["world", "n_zips"], 1),
                                            (["attempts", "*", "at"], 0), (["attempts", "*", "nth"], 0)])
        for i, f in enumerate(plan.get("attempts", [])):
            if f["kind"] != "kill":
                yield core._set(plan, ["attempts", i, "kind"], "kill")

    # ------------------------------------------------------------------------------------------
    def execute(self, plan):
        from simkit import simfs
        import kappadata.copying.copying_utils as cu
        out = core.Outcome()
        w = plan["world"]
        from simkit import simproc  # noqa: F401  (installs the thread-pool seam: a pool of threads instead of joblib stays simulated)
        saved = getattr(cu, "joblib", None)
        if saved is not None:
            cu.joblib = simfs.FakeJoblib
        try:
            with simfs.SimMachine() as m:
                if w.get("tmp_other_device"):
                    # TMPDIR is a separate file system (tmpfs, node-local scratch): rename(2) across it fails with EXDEV
                    m.fs.add_mount_point(m.tempdir)
                try:
                    expected = build_source(m, w)
                except Exception as e:
                    out.rejected = True
                    out.ev("world-rejected", type(e).__name__)
                    return out
                self._run(plan, w, m, expected, out)
        finally:
            if saved is not None:
                cu.joblib = saved
        return out

    def _unkilled_extras(self, m, w, st, expected, role):
        """top-level non-source files after the same history in which the LAST interrupted attempt runs to completion instead"""
        from simkit.simfs import snapshot
        gp, lp, src, dst = paths(w)
        last = max((i for i, t in enumerate(st.trail) if t[1] is not None), default=None)
        if last is None or any(t[4] for t in st.trail[:last + 1]):
            return None
        wipe_local(m, w)
        for i, (use, fault, lseed, sseed, _) in enumerate(st.trail[:last + 1]):
            att = m.attempt(use, None if i == last else fault, list_seed=lseed, sched_seed=sseed, classify=role)
        if att["status"] != "ok":
            return None
        tree = snapshot(dst)
        if tree is None:
            return None
        return {k for k, v in tree.items() if "/" not in k and v is not None and k not in expected}

    def _run(self, plan, w, m, expected, out):
        from simkit.simfs import snapshot
        gp, lp, src, dst = paths(w)
        site = f"{w['fn']}"
        role = classifier(w, expected)
        fns = [call_fn(w, nw, ap) for nw in (None, 0, 2) for ap in (False, True)]
        fn = fns[0]
        src_root = G
        src_snap = snapshot(src_root)
        ls, ss = plan["list_seed"], plan["sched_seed"]
        counter = [0]

        def do(st, fault, history, tag):
            counter[0] += 1
            plan_fault = fault
            before_exists = os.path.exists(dst)
            st.leftovers = before_exists and not st.completed and not st.user_provided
            bt = snapshot(dst) if before_exists else None
            st.before_paths = set(bt or {})
            st.role = role
            st.before_complete = bt is not None and {k: v for k, v in bt.items() if not ("/" not in k and v is not None and k not in expected)} == expected
            # the retry need not use the settings of the interrupted attempt (other worker count, Path instead of str arguments)
            use = fns[(plan.get("vary_seed", 0) + counter[0]) % len(fns)] if plan.get("vary_calls") else fn
            restore = None
            if fault is not None and fault.get("kind") == "corrupt":
                # the global file system delivers a truncated zip during this attempt only (environment fault, not done by the copy)
                zips = sorted(os.path.join(dp, f) for dp, _, fs_ in os.walk(G) for f in fs_ if f.endswith(".zip"))
                fault = None
                if zips:
                    zp = zips[plan_fault["which"] % len(zips)]
                    data = open(zp, "rb").read()
                    with open(zp, "wb") as fh:
                        fh.write(data[:max(1, int(len(data) * plan_fault["keep"]))])
                    restore = (zp, data)
                    out.count("fault:source_zip_truncated_during_attempt")
            st.trail.append((use, fault, f"{ls}/{counter[0]}", f"{ss}/{counter[0]}", plan_fault is not None and plan_fault.get("kind") == "corrupt"))
            att = m.attempt(use, fault, list_seed=f"{ls}/{counter[0]}", sched_seed=f"{ss}/{counter[0]}", classify=role)
            if restore is not None:
                with open(restore[0], "wb") as fh:
                    fh.write(restore[1])
            fired = att["fired"]
            history = history + [[tag, att["status"], (fired or {}).get("kind"), (fired or {}).get("at"), (fired or {}).get("prim"),
                                  (fired or {}).get("role")]]
            out.ev(tag, att["status"], att["prims"], fired, core.digest(att["log"])[:12], core.digest(att["sched"])[:8])
            out.count("logical:fs_primitives", att["prims"])
            out.count("logical:calls")
            if fired:
                out.count("fault:" + fired["kind"] + ("(torn-prefix-committed)" if fired.get("torn") else ""))
                out.count(f"faultsite:{fired['prim']}:{fired['role']}")
                if att["prims"] > 0 or fired["at"] > 0:
                    self._fired_inside = True
            if att["sched"] and any(len(set(t)) > 1 for t in att["sched"]):
                out.count("sched:parallel_unzip_sections_interleaved")
            if att["status"] == "exc":
                out.count("call_raised" + ("_after_injected_oserror" if fired else "_without_fault"))
            judge(out, st, att, dst, src_snap, snapshot(src_root), history, site)
            if att["status"] == "ok":
                self._judged = True
            if st.pending_left is not None:
                left, sizes, res_, hist_ = st.pending_left
                st.pending_left = None
                star = self._unkilled_extras(m, w, st, expected, role)
                out.count("leftover_clause_reruns")
                if star is not None:
                    real = [k for k in left if k not in star]
                    if real:
                        out.violate("C20:leftover-of-interrupted-attempt-survives", site,
                                    f"history={hist_} result={res_}: {real[:4]} (sizes {[sizes[k] for k in real[:4]]}) were created by an attempt "
                                    f"that was killed, are still there after completion, and would not be there had that attempt not been "
                                    f"killed (then: {sorted(star)})")
                raise HistoryEnded()
            return att, history

        self._fired_inside = False
        self._judged = False
        allowed = None
        if w["dst_initial"] not in ("empty", "content"):
            # baseline for the recovery-equivalence clause: an uninterrupted copy on this machine, then the local side is wiped
            build_local(m, w)
            base = m.attempt(fn, None, list_seed=f"{ls}/base", sched_seed=f"{ss}/base", classify=role)
            bt = snapshot(dst) if base["status"] == "ok" and os.path.exists(dst) else None
            if bt is not None:
                allowed = {k for k, v in bt.items() if "/" not in k and v is not None and k not in expected}
            wipe_local(m, w)
        else:
            build_local(m, w)
        _State = globals()["State"]

        def State(w_, expected_):  # noqa: N802 - every history starts with the baseline's marker set
            st_ = _State(w_, expected_)
            st_.allowed_extras = allowed
            return st_

        if plan["mode"] == "sequence":
            st = State(w, expected)
            hist = []
            try:
                for f in plan["attempts"]:
                    att, hist = do(st, f, hist, "faulty")
                for i in range(plan["clean_calls"]):
                    att, hist = do(st, None, hist, "clean")
            except HistoryEnded:
                pass
            out.nontrivial = self._fired_inside and self._judged
            return
        # ---- sweep ----
        st = State(w, expected)
        att, hist = do(st, None, [], "clean")
        n = att["prims"]
        writes = [i for i, e in enumerate(att["log"]) if e[0] == "write"]
        do(st, None, hist, "clean")
        only = plan.get("sweep_only")
        points = []
        if only is None:
            points += [["k", k] for k in range(n)]
            points += [["t", k] for k in writes]
            for k1 in plan["k1s"]:
                if n:
                    points.append(["kk*", k1 % n])
            if plan.get("sweep_io_errors"):
                points += [["e", k] for k in range(n)]
        else:
            points = only
        out.count("sweep:single_crash_points_enumerated", sum(1 for p in points if p[0] == "k"))
        out.count("sweep:io_error_points_enumerated", sum(1 for p in points if p[0] == "e"))
        for pt in points:
          try:
            wipe_local(m, w)
            st = State(w, expected)
            if pt[0] in ("k", "t", "e"):
                f = dict(kind={"k": "kill", "t": "torn", "e": "eio" if pt[1] % 2 else "enospc"}[pt[0]], at=pt[1], frac=0.5)
                att, hist = do(st, f, [], "faulty")
                att, hist = do(st, None, hist, "clean")
                att, hist = do(st, None, hist, "clean")
            elif pt[0] == "kk":
                att, hist = do(st, dict(kind="kill", at=pt[1]), [], "faulty")
                att, hist = do(st, dict(kind="kill", at=pt[2]), hist, "faulty")
                att, hist = do(st, None, hist, "clean")
                att, hist = do(st, None, hist, "clean")
            elif pt[0] == "kk*":
                # learn the length of the recovery attempt, then enumerate all of its crash points
                att, hist = do(st, dict(kind="kill", at=pt[1]), [], "faulty")
                att, hist2 = do(st, None, hist, "clean")
                n2 = att["prims"]
                out.count("sweep:double_crash_points_enumerated", n2)
                for k2 in range(n2):
                    try:
                        wipe_local(m, w)
                        st = State(w, expected)
                        att, hist = do(st, dict(kind="kill", at=pt[1]), [], "faulty")
                        att, hist = do(st, dict(kind="kill", at=k2), hist, "faulty")
                        att, hist = do(st, None, hist, "clean")
                        att, hist = do(st, None, hist, "clean")
                    except HistoryEnded:
                        pass
          except HistoryEnded:
            pass
        out.nontrivial = self._fired_inside and self._judged


def validate_against_real_fs(n_worlds, seed):
    """fault-free copies of seeded worlds on the REAL file system (temporary directory, real joblib) must produce the same
    tree and the same result object as on the simulated file system - validates the pyfakefs stub, decides nothing"""
    import random
    import shutil
    import tempfile
    import zipfile
    from simkit import env, simfs
    env.import_kappadata()
    from kappadata.copying.folder import copy_folder_from_global_to_local
    from kappadata.copying.image_folder import copy_imagefolder_from_global_to_local
    import kappadata.copying.copying_utils as cu
    rng = random.Random(f"c20-realfs/{seed}")
    compared, mism = 0, []
    for _ in range(n_worlds):
        w = gen_world(rng)
        w["dst_initial"] = "absent"
        w["num_workers"] = rng.choice([0, 0, 2])
        fn = copy_folder_from_global_to_local if w["fn"] == "folder" else copy_imagefolder_from_global_to_local
        # --- simulated
        saved = getattr(cu, "joblib", None)
        if saved is not None:
            cu.joblib = simfs.FakeJoblib
        try:
            with simfs.SimMachine() as m:
                build_source(m, w)
                gp, lp, src, dst = paths(w)
                att = m.attempt(lambda: fn(gp, lp, relative_path=w["relative"], num_workers=w["num_workers"]))
                sim_tree = simfs.snapshot(dst)
                sim_res = repr(att["result"])
        finally:
            if saved is not None:
                cu.joblib = saved
        # --- real
        root = tempfile.mkdtemp(prefix="kd_c20_real_")
        try:
            gp, lp, src, dst = [root + p for p in paths(w)]
            if w["fmt"] == "raw":
                for p, sz, b in w["files"]:
                    os.makedirs(os.path.dirname(f"{src}/{p}"), exist_ok=True)
                    open(f"{src}/{p}", "wb").write(content(sz, b))
                for d in w["empty_dirs"]:
                    os.makedirs(f"{src}/{d}", exist_ok=True)
            elif w["fmt"] == "zip":
                os.makedirs(os.path.dirname(src), exist_ok=True)
                with zipfile.ZipFile(src + ".zip", "w") as z:
                    for p, sz, b in w["files"]:
                        z.writestr(p, content(sz, b))
            else:
                os.makedirs(src, exist_ok=True)
                nz = max(1, min(w["n_zips"], len(w["files"])))
                groups = [[] for _ in range(nz)]
                for i, f in enumerate(w["files"]):
                    groups[i % nz].append(f)
                for j, g in enumerate(groups):
                    with zipfile.ZipFile(f"{src}/part{j}.zip", "w") as z:
                        for p, sz, b in g:
                            z.writestr(p, content(sz, b))
                if w["readme"] and nz >= 2:
                    open(f"{src}/README.md", "wb").write(b"about")
            try:
                res = fn(gp, lp, relative_path=w["relative"], num_workers=w["num_workers"])
                real_tree = simfs.snapshot(dst)
                real_res = repr(res)
            except Exception as e:
                real_tree, real_res = None, f"raised {type(e).__name__}"
        finally:
            shutil.rmtree(root, ignore_errors=True)
        compared += 1
        if att["status"] != "ok" or real_tree is None:
            # the racy makedirs of parallel extraction may raise on either side; only completed copies are compared
            compared -= 1
            continue
        if sim_tree != real_tree or sim_res != real_res:
            mism.append(dict(world={k: w[k] for k in ("fn", "fmt", "relative", "num_workers")}, sim=sim_res, real=real_res))
    return dict(fault_free_worlds_compared_with_real_file_system=compared, mismatches=len(mism), examples=mism[:2])


SPEC = Spec()

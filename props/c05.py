"""C05 - interleaved scheduler: side passes run exactly when due, whole, unmixed; also through the loader.

Two run classes in the simtrainer world:
  * sampler level: the complete event history of the real sampler equals the reference model's history;
  * loader level: InterleavedSampler.get_data_loader(K) with the DataLoader symbol rebound to the simulated
    loader; the PRNG decides worker count, prefetch depth, out-of-order completion and run-ahead; every delivered
    batch must carry exactly the dataset/sample identities the reference assigns to that batch position and be
    collated by that dataset's collator; every worker's hook must have seen the right dataset_len.
"""
import bisect

from simkit import core
from . import iltrain as T


def ref_batches(w, ref):
    """[(dataset index, [sample indices])] in emission order"""
    offs = [0] + T.offsets(w)  # start offsets of main, c0, c1, ...
    batches, cur = [], []
    for e in ref:
        if e[0] != "out":
            continue
        ds = bisect.bisect_right(offs, e[1]) - 1
        cur.append((ds, e[1] - offs[ds]))
        if e[2]:
            batches.append(cur)
            cur = []
    assert not cur
    return batches


class Spec(core.PropSpec):
    prop = "C05"
    level = "exploration"
    rule = ("plans = C04 worlds with 1-5 side configs (any non-empty subset of every_n_epochs/updates/samples, intervals that "
            "do and do not divide B / epoch length, per-config batch sizes, side sampler sizes 0-9, dataset larger than "
            "sampler) in two run classes: sampler level (full history vs reference) and loader level (K in 0..4 simulated "
            "workers, prefetch 1..3, seeded out-of-order completion and run-ahead); non-trivial = at least one side pass "
            "emitted between/after main updates (or a zero-budget pass) and, at loader level, K>=1; distinct = distinct "
            "SHA-256 of the event history including the worker schedule")
    assumptions = ["side samplers are user objects whose iteration yields len(sampler) indices",
                   "simulated DataLoader reproduces torch's round-robin / in-order protocol (validated against the real "
                   "multi-process DataLoader in the thorough tier)"]
    components = {"real": ["InterleavedSampler", "_InterleavedBatchSampler", "_InterleavedConcatDataset", "_InterleavedCollator",
                           "InterleavedSampler.get_data_loader", "ModeWrapper", "torch _MapDatasetFetcher/default_collate"],
                  "stub": ["torch DataLoader process/queue machinery (simkit.simloader)", "peer samplers", "id-encoded root datasets"]}
    tiers = {"quick": dict(runs=12000, budget_s=45), "thorough": dict(runs=400000, budget_s=600)}
    shrink_lists = T.SHRINK_LISTS
    shrink_ints = T.SHRINK_INTS

    def gen_plan(self, seed, tier):
        st = core.Streams(seed)
        rw = st("world")
        big = tier != "quick"
        w = T.gen_world(rw, max_n=48 if big else 24, max_cfg=7 if big else 5)
        if not w["configs"]:
            w = T.gen_world(rw, max_n=48 if big else 24, max_cfg=7 if big else 5)
        ro = st("ops")
        level = ro.choice(["sampler", "sampler", "loader"])
        plan = dict(world=w, level=level, via=ro.choice(["sampler", "batch_sampler"]))
        rc = st("company")
        plan["company"] = T.gen_company(rc, w) if w["configs"] and rc.random() < 0.25 else None
        plan["overlap"] = [[rc.randint(0, 12), rc.randint(1, 4)] for _ in range(rc.randint(1, 2))] if rc.random() < 0.2 else None
        plan["side_fault"] = dict(ci=rc.randint(0, 5), p=rc.choice([0, 0, 1, 2]), k=rc.randint(0, 5)) \
            if w["configs"] and not plan["company"] and not plan["overlap"] and level == "sampler" and rc.random() < 0.25 else None
        if level == "loader":
            plan.update(K=ro.choice([0, 1, 2, 2, 3, 4]), prefetch=ro.choice([1, 2, 2, 3]), sched_seed=ro.getrandbits(32),
                        stall=ro.choice([None, None, 0, 1]), tagged=[ro.random() < 0.7 for _ in range(len(w["configs"]) + 1)],
                        start_method=st("preempt").choice(["fork", "fork", "spawn"]), preempt_rate=st("preempt").choice([0, 0, 0, 0.05, 0.3]))
        return plan

    def shrink_candidates(self, plan):
        if plan.get("company"):
            yield dict(plan, company=None)
        if plan.get("overlap"):
            yield dict(plan, overlap=None)
        if plan.get("side_fault"):
            yield dict(plan, side_fault=None)
            for f in ("p", "k"):
                if plan["side_fault"][f] > 0:
                    yield dict(plan, side_fault=dict(plan["side_fault"], **{f: plan["side_fault"][f] - 1}))
        yield from T.world_candidates(plan)
        yield from super().shrink_candidates(plan)

    def execute(self, plan):
        out = core.Outcome()
        w = plan["world"]
        if not T.valid_world(w):
            out.rejected = True
            return out
        ref = T.reference(w)
        if ref is None:
            out.rejected = True
            return out
        multi = any(sum(c[k] is not None for k in ('ene', 'enu', 'ens')) > 1 for c in w['configs'])
        site = 'multi-kind-config' if multi else 'single-kind-configs'
        n_side = sum(1 for e in ref if e[0] == "iter" and e[1] != "main")
        out.count("logical:side_passes", n_side)
        out.count("logical:main_updates", sum(1 for e in ref if e[0] == "out" and e[2] and e[1] < w["M"]))
        if any(sum(c[k] is not None for k in ("ene", "enu", "ens")) > 1 for c in w["configs"]):
            out.tags.append("multi-kind-config")
        if w["budget"][1] == 0:
            out.tags.append("zero-budget")
        if any(c["n"] == 0 for c in w["configs"]):
            out.tags.append("empty-side-sampler")
        if any(c["bs"] for c in w["configs"]):
            out.tags.append("per-config-batch-size")
        if any(c.get("share_with") is not None for c in w["configs"]):
            out.tags.append("dataset-object-shared-by-two-samplers")
        if any(c["ens"] and c["ens"] % w["B"] for c in w["configs"]):
            out.tags.append("sample-interval-not-multiple-of-B")
        if plan["level"] == "sampler":
            self._sampler_level(plan, w, ref, site, out)
        else:
            # the loader class only makes sense where the sampler itself follows the reference
            self._sampler_level(dict(plan, via="batch_sampler"), w, ref, site, out)
            if not out.violations and not out.rejected:
                if any(c["kind"] == "epochperm" for c in w["configs"]):
                    ref = T.reference(w, side_epochs=T.side_epochs_of(out.events))
                out.events = []
                self._loader_level(plan, w, ref, site, out)
        out.nontrivial = n_side > 0 and (plan["level"] == "sampler" or plan.get("K", 0) >= 1)
        return out

    def _sampler_level(self, plan, w, ref, site, out):
        cap = len(ref) + 50
        try:
            hist, terminated = T.run_sampler(w, via=plan["via"], cap=cap, company=plan.get("company"), overlap=plan.get("overlap"),
                                             side_fault=plan.get("side_fault") if plan["level"] == "sampler" else None)
            if plan.get("company"):
                out.count("fault:config_objects_shared_with_second_sampler")
            if plan.get("overlap"):
                out.count("fault:overlapping_iteration_of_same_object")
        except T.Rejected as e:
            out.rejected = True
            return
        except Exception as e:
            out.violate("C05:raises:" + type(e).__name__, site, f"{type(e).__name__}: {e}")
            return
        out.events = list(hist)
        out.count("logical:events", len(hist))
        if ["side-sampler-fails"] in hist:
            out.count("fault:side_sampler_fails_mid_pass")
            loud = hist[-1] == ["raised"]
            hist = [e for e in hist if e not in (["raised"], ["side-sampler-fails"])]
            if loud:
                # the failing pass cannot be whole; a stream that ends with the injected error is the acceptable outcome - everything
                # handed out before it must be a prefix of the fault-free history
                out.count("side_sampler_failure_ended_the_stream_loudly")
                if any(c["kind"] == "epochperm" for c in w["configs"]):
                    ref = T.reference(w, side_epochs=T.side_epochs_of(hist))
                if ref[:len(hist)] != hist:
                    out.violate("C05:side-pass-content", site, "before the injected side-sampler failure: " + str(T.first_diff(hist, ref[:len(hist)])))
                return
        if not terminated:
            out.violate("C05:no-termination", site, f"more than {cap} indices")
            return
        if any(c["kind"] == "epochperm" for c in w["configs"]):
            ref = T.reference(w, side_epochs=T.side_epochs_of(hist))  # a side pass is the sampler's own iteration, whatever epoch it holds
        d = T.first_diff(hist, ref)
        if d:
            # classify by comparing the side-pass schedule (which passes, where)
            gp = [e for e in hist if e[0] == "iter"]
            rp = [e for e in ref if e[0] == "iter"]
            if gp != rp:
                cls = "C05:side-pass-schedule"
            else:
                cls = "C05:side-pass-content"
            if T.main_projection(hist, w["M"]) != T.main_projection(ref, w["M"]):
                cls = "C05:main-stream-differs"
            out.violate(cls, site, d)

    def _loader_level(self, plan, w, ref, site, out):
        import kappadata.samplers.interleaved_sampler as ils
        from kappadata.wrappers import ModeWrapper
        from simkit.simloader import SimDataLoader, Chooser
        from .simdata import IdDataset, TagCollator
        sizes = [w["M"]] + [c["m"] for c in w["configs"]]
        datasets = [ModeWrapper(IdDataset(i, m), mode="index x") for i, m in enumerate(sizes)]
        obj_id = list(range(len(sizes)))  # which dataset OBJECT stands at each position (shared objects keep the first user's id)
        for ci, c in enumerate(w["configs"]):
            if c.get("share_with") is not None:
                datasets[ci + 1] = datasets[c["share_with"]]
                obj_id[ci + 1] = obj_id[c["share_with"]]
        tagged = plan["tagged"] + [True] * (len(sizes) - len(plan["tagged"]))
        collators = [TagCollator(f"T{i}") if tagged[i] else None for i in range(len(sizes))]
        K = plan["K"]
        weights = {}
        if plan.get("stall") is not None and K > 1:
            weights[plan["stall"] % K] = 0.05  # a stalled worker: rarely scheduled

        class L(SimDataLoader):
            chooser = Chooser(seed=plan["sched_seed"], weights=weights)
            trace = []
            created = []
            start_method = plan.get("start_method", "fork")
            preempt = dict(seed=plan["sched_seed"], rate=plan["preempt_rate"]) if plan.get("preempt_rate") else None
            switches = 0

        log = []
        try:
            s = T.build(w, log, datasets=datasets, collators=collators)
        except T.Rejected:
            out.rejected = True
            return
        expected = ref_batches(w, ref)
        from simkit.simloader import dataloader_seam
        delivered = []
        try:
            with dataloader_seam(L, ils):
                loader = s.get_data_loader(num_workers=K, prefetch_factor=plan["prefetch"] if K > 0 else None)
                n = 0
                for batch in loader:
                    delivered.append(batch)
                    n += 1
                    if n > len(expected) + 5:
                        out.violate("C05:loader-no-termination", site, f"more than {len(expected) + 5} batches delivered")
                        break
        except Exception as e:
            out.violate("C05:loader-raises:" + type(e).__name__, site, f"{type(e).__name__}: {e}")
            out.ev("raised", type(e).__name__)
            return
        if not L.created:
            out.count("loader_not_simulated")  # the library built its loader from a place the seam does not cover
        out.count("logical:batches_delivered", len(delivered))
        out.count("sched:worker_steps", len(L.trace))
        # out-of-order completion actually happened?
        if L.switches:
            out.count("fault:worker_preempted_inside_a_sample", L.switches)
        if K >= 1 and L.start_method == "spawn":
            out.count("fault:workers_started_with_spawn")
        order = [t[1] for t in L.trace if t[0] != "main" and len(t) == 2]
        if order != sorted(order):
            out.count("fault:out_of_order_completion")
        if K > 0:
            out.tags.append(f"K={K}")
        out.ev("schedule", L.trace)
        for b, batch in enumerate(delivered):
            if b >= len(expected):
                out.violate("C05:loader-extra-batch", site, f"batch {b} delivered but the reference has {len(expected)}")
                break
            exp = expected[b]
            ds = exp[0][0]
            ids = [i for _, i in exp]
            if isinstance(batch, dict) and "tag" in batch:
                tag, data = batch["tag"], batch["data"]
            else:
                tag, data = None, batch
            exp_tag = f"T{ds}" if tagged[ds] else None
            try:
                index, x = data
                got_ds = sorted(set(x[:, 0].tolist()))
                got_ids = x[:, 1].tolist()
                got_index = index.tolist()
                got_len = sorted(set(x[:, 2].tolist()))
                got_calls = sorted(set(x[:, 4].tolist()))
            except Exception as e:
                out.violate("C05:loader-malformed-batch", site, f"batch {b}: {type(e).__name__}: {e}")
                break
            out.ev("deliver", b, got_ds, got_ids, tag)
            if got_ds != [obj_id[ds]]:
                out.violate("C05:loader-wrong-dataset", site, f"batch {b}: samples from datasets {got_ds}, expected {[obj_id[ds]]}")
            elif got_ids != ids or got_index != ids:
                out.violate("C05:loader-wrong-samples", site, f"batch {b} of dataset {ds}: ids {got_ids} index {got_index}, expected {ids}")
            if tag != exp_tag:
                out.violate("C05:loader-wrong-collator", site, f"batch {b} of dataset {ds}: collated by {tag}, expected {exp_tag}")
            if K > 0 and got_len != [sizes[ds]]:
                out.violate("C05:worker-hook-dataset-len", site, f"batch {b}: dataset {ds} saw dataset_len {got_len}, expected {sizes[ds]}")
            if K > 0 and (not got_calls or min(got_calls) < 1):
                # (a dataset object used by two samplers legitimately sees the hook once per use)
                out.violate("C05:worker-hook-calls", site, f"batch {b}: dataset {ds} hook called {got_calls} times per worker")
        if len(delivered) < len(expected) and not out.violations:
            out.violate("C05:loader-missing-batches", site, f"{len(delivered)} delivered, reference has {len(expected)}")


    def extra_evidence(self, tier, seed):
        from simkit.simloader import stub_validation
        sv = stub_validation(3 if tier == "quick" else 25, seed)
        il = self._validate_interleaved_loader(2 if tier == "quick" else 12, seed)
        return {"stub_validation": sv, "stub_validation_interleaved_loader": il,
                "traces_validated_against_impl": sv["batches_compared"] + il["batches_compared"]}

    @staticmethod
    def _validate_interleaved_loader(n_worlds, seed):
        """the same interleaved world through InterleavedSampler.get_data_loader with the REAL multi-process DataLoader and with
        the simulated one: delivered batches must be identical (stub validation only)"""
        import random
        from simkit import env
        env.import_kappadata()
        import kappadata.samplers.interleaved_sampler as ils
        from kappadata.wrappers import ModeWrapper
        from simkit.chooser import Chooser
        from simkit.deep import deep_diff
        from simkit.simloader import SimDataLoader, dataloader_seam
        from .simdata import IdDataset, TagCollator
        rng = random.Random(f"c05-real/{seed}")
        worlds = batches = 0
        mism = []
        while worlds < n_worlds:
            w = T.gen_world(rng, max_n=10, max_cfg=2)
            ref = T.reference(w)
            if not w["configs"] or ref is None or len(ref) > 120 or w["main_kind"] == "dist" or any(c["kind"] in ("real_seq", "dist_seq") for c in w["configs"]):
                continue
            worlds += 1
            sizes = [w["M"]] + [c["m"] for c in w["configs"]]
            runs = []
            for which in ("real", "sim"):
                datasets = [ModeWrapper(IdDataset(i, m), mode="index x") for i, m in enumerate(sizes)]
                for ci, c in enumerate(w["configs"]):
                    if c.get("share_with") is not None:
                        datasets[ci + 1] = datasets[c["share_with"]]
                collators = [TagCollator(f"T{i}") for i in range(len(sizes))]
                s = T.build(w, [], datasets=datasets, collators=collators)

                class L(SimDataLoader):
                    chooser = Chooser(seed=worlds)
                    trace = []
                    created = []

                out = []
                if which == "real":
                    for b in s.get_data_loader(num_workers=2):  # no list(): __len__ raises NotImplementedError by design
                        out.append(b)
                else:
                    with dataloader_seam(L, ils):
                        for b in s.get_data_loader(num_workers=2):
                            out.append(b)
                runs.append(out)
            batches += len(runs[0])
            d = deep_diff(runs[0], runs[1])
            if d:
                mism.append(dict(world=w, diff=d))
        return dict(worlds_compared_with_real_multiprocess_DataLoader=worlds, batches_compared=batches, mismatches=len(mism), examples=mism[:1])


SPEC = Spec()

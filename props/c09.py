"""C09 - every dataloader worker gets its own reproducible augmentation stream (simloader engine + generator monitor).

A stack whose stochastic members are NOT seeded per sample (transform trees inside XTransformWrapper /
KDMultiViewWrapper, sample-level mix, collators registered on the root) - optionally inside subsets, a KDConcatDataset
or the interleaved sampler's concat dataset - is served by the simulated DataLoader for several loader epochs with
K workers each.  An object-graph walker enumerates every numpy Generator reachable from (dataset, collate_fn) in the
main process (the copy a worker inherits) and in every worker after the worker-init hook and after every batch.
A generator's *stream* is fingerprinted behaviourally: the next 64 raw draws of a deep copy.
Invariants: (i) no reachable generator still replays the inherited (forked) stream after the hook; (ii) no generator
of a worker overlaps (shares a window of draws) with a generator of another worker or of the same worker id under
another base seed; (iii) re-creating the workers with the same base seed reproduces all fingerprints and all
delivered batches bit for bit, whatever the main process's ambient RNG state is.  Because derived seeds are 31-bit,
a coincidence is only reported if it persists under three independent base seeds.
"""
from simkit import core
from . import catalog as C
from . import stacks as S

NGRAM = 4
DRAWS = 64


CTX_STABLE = ["KDAdditiveGaussianNoise", "KDAdditiveUniformNoise", "KDRandomHorizontalFlip", "KDRandomErasing(zeros)", "KDThreshold",
              "KDGaussianBlurTV", "KDColorJitter(tensor)", "KDSimpleRandomCrop"]


def gen_c09_stack(rng):
    n = rng.randint(4, 10)
    collators = rng.choice([[], [], [], ["mix"], ["dino"], ["mix", "dino"], ["mix", "mix"], ["dino", "mix"]])
    ctx_stable = "dino" in collators  # contexts are default-collated: every sample must record the same keys

    def tree(depth):
        if ctx_stable:
            k = rng.randint(1, 3)
            items = [{"t": "leaf", "name": rng.choice(CTX_STABLE)} for _ in range(k)]
            return items[0] if k == 1 and rng.random() < 0.5 else {"t": "compose", "items": items}
        return C.gen_spec(rng, depth=depth, dom="T", keep_only=True, allow_list=True, scheduled=False)

    layers = []
    for _ in range(rng.choice([1, 1, 2, 3])):
        r = rng.random()
        if r < 0.5:
            layers.append({"t": "xtw", "transform": tree(3)})
        elif r < 0.72 and not collators:
            cfgs = [{"n": rng.choice([1, 2]), "transform": tree(2)} for _ in range(rng.choice([1, 2, 2, 3]))]
            layers.append({"t": "multiview", "configs": cfgs})
        elif r < 0.8:
            layers.append({"t": "mix", "p": rng.choice([0.5, 1.0]), "alpha": 0.8})
        else:
            layers.append(S.gen_layer(rng, n))
    # at most one multiview / mix; mix first (it needs integer labels), multiview last (it turns x into a list)
    mv = [l for l in layers if l["t"] == "multiview"][:1]
    mix = [l for l in layers if l["t"] == "mix"][:1]
    rest = [l for l in layers if l["t"] not in ("multiview", "mix", "labelsmooth", "classfilter")]
    if mv:
        mix = []
        if rest and rest[-1]["t"] == "xtw":
            rest.append({"t": "shuffle", "seed": 1})  # multi-view directly above a stochastic x-transform wrapper is refused
    if mix:
        rest = [l for l in rest if l["t"] == "xtw"]  # only wrappers implementing the fused loader may sit above the mix wrapper
    layers = mix + rest + mv
    if "mix" in collators and not mix:
        layers.append({"t": "onehot"})  # the mix collator expects one-hot labels
    container = None if mv else rng.choice([None, None, None, "concat", "interleaved", "concat_shared"])
    if mv and core.Streams(f"c09-mv/{n}/{len(layers)}/{len(collators)}")("x").random() < 0.5:
        # training (unseeded) and evaluation (seeded) multi-view datasets built from ONE configs list, served by the same workers
        container = "interleaved_mv_twin"
    if mix and container in ("concat", "concat_shared"):
        container = "interleaved"
    over = []
    if container in ("concat", "concat_shared") and rng.random() < 0.5:
        over = [rng.choice([{"t": "xtw", "transform": {"t": "leaf", "name": "KDAdditiveUniformNoise"}}, {"t": "labelsmooth", "s": 0.0},
                            {"t": "xtw", "transform": {"t": "leaf", "name": "KDRandomHorizontalFlip"}}])]
    via = container is None and not mv and rng.random() < 0.2
    # environment fault: the hook of one (outer) member fails in some or all workers - a loader that dies loudly is fine, a loader
    # that carries on must still have given every stochastic member its own stream
    hook_fault = None
    if not mv and container in (None, "interleaved") and rng.random() < 0.12:
        hook_fault = rng.choice([None, None, [0], [1]]) or "all"
    return {"root": {"kind": "tensor", "n": n}, "layers": layers, "collators": collators, "container": container, "over": over,
            "via_interleaved_sampler": via, "hook_fault": hook_fault}


def build_c09(stack, mode, return_ctx):
    """returns (mode-wrapped dataset, collate_fn)"""
    import kappadata.wrappers as W
    from kappadata.collators import KDComposeCollator, KDDinoMaskCollator, KDMixCollator, KDSingleCollatorWrapper
    from kappadata.datasets import KDConcatDataset
    from kappadata.samplers.interleaved_sampler import _InterleavedCollator, _InterleavedConcatDataset
    from torch.utils.data import default_collate
    from .simdata import RootDataset
    cols = []
    for c in stack["collators"]:
        if c == "mix":
            cols.append(KDMixCollator(mixup_alpha=0.8, mixup_p=1.0, apply_mode="sample", lamb_mode="sample", shuffle_mode="random"))
        else:
            cols.append(KDDinoMaskCollator(mask_ratio=(0.1, 0.5), mask_prob=0.5, mask_size=4))
    ds = RootDataset(stack["root"]["kind"], stack["root"]["n"], collators=cols or None)
    for layer in stack["layers"]:
        t = layer["t"]
        if t == "xtw":
            ds = W.XTransformWrapper(ds, C.build(layer["transform"]))
        elif t == "multiview":
            mv_configs = [(c["n"], C.build(c["transform"])) for c in layer["configs"]]
            mv_base = ds
            ds = W.KDMultiViewWrapper(ds, configs=mv_configs)
        elif t == "mix":
            ds = W.KDMixWrapper(ds, mixup_p=layer["p"], mixup_alpha=layer["alpha"])
        else:
            ds = S.apply_layer(ds, layer)
    if stack.get("hook_fault"):
        from .simdata import FaultyHookTransform
        hf = stack["hook_fault"]
        ds = W.XTransformWrapper(ds, FaultyHookTransform(None if hf == "all" else set(hf)))
    if stack["container"] == "concat":
        other = W.XTransformWrapper(RootDataset("tensor", 3), C.build({"t": "leaf", "name": "KDAdditiveGaussianNoise"}))
        ds = KDConcatDataset([ds, other])
    elif stack["container"] == "concat_shared":
        # e.g. a weakly and a strongly augmented view of one dataset: two wrapper stacks over the same root object
        other = W.SubsetWrapper(W.XTransformWrapper(ds.root_dataset, C.build({"t": "leaf", "name": "KDAdditiveGaussianNoise"})), indices=[0, 1, 2])
        ds = KDConcatDataset([ds, other])
    for layer in stack.get("over") or []:
        # wrappers stacked on top of the concat container
        if layer["t"] == "xtw":
            ds = W.XTransformWrapper(ds, C.build(layer["transform"]))
        else:
            ds = S.apply_layer(ds, layer)
    mw = W.ModeWrapper(ds, mode=mode, return_ctx=return_ctx)
    if cols:
        collate = KDComposeCollator(collators=mw.collators, dataset_mode=mode, return_ctx=return_ctx)
    else:
        collate = None
    if stack["container"] == "interleaved_mv_twin":
        twin = W.KDMultiViewWrapper(RootDataset("tensor", 3), configs=mv_configs, seed=5)
        other = W.ModeWrapper(twin, mode=mode, return_ctx=return_ctx)
        ds2 = _InterleavedConcatDataset([mw, other])
        return ds2, _InterleavedCollator([collate or default_collate, default_collate])
    if stack["container"] == "interleaved":
        other = W.ModeWrapper(W.XTransformWrapper(RootDataset("tensor", 3), C.build({"t": "leaf", "name": "KDAdditiveUniformNoise"})),
                              mode=mode, return_ctx=return_ctx)
        ds2 = _InterleavedConcatDataset([mw, other])
        return ds2, _InterleavedCollator([collate or default_collate, default_collate])
    return mw, collate


def walk(obj, path="$", seen=None, out=None, owner="?"):
    """every numpy Generator reachable through attributes / lists / tuples / dicts / partials, with its access path"""
    import functools
    import inspect
    import numpy as np
    import torch
    from PIL import Image
    if seen is None:
        seen, out = set(), []
    if isinstance(obj, np.random.Generator):
        out.append((path, owner, obj))
        return out
    if id(obj) in seen:
        return out
    seen.add(id(obj))
    if isinstance(obj, (str, bytes, int, float, bool, type(None), torch.Tensor, np.ndarray, Image.Image, torch.Generator)) or \
            inspect.ismodule(obj) or inspect.isclass(obj) or inspect.isbuiltin(obj):
        return out
    if isinstance(obj, functools.partial):
        walk(obj.func, path + ".func", seen, out, owner)
        walk(obj.args, path + ".args", seen, out, owner)
        walk(obj.keywords, path + ".keywords", seen, out, owner)
        return out
    if inspect.ismethod(obj):
        walk(obj.__self__, path + ".__self__", seen, out, owner)
        return out
    if inspect.isroutine(obj):
        return out
    if isinstance(obj, (list, tuple)):
        for i, o in enumerate(obj):
            walk(o, f"{path}[{i}]", seen, out, owner)
    elif isinstance(obj, dict):
        for k in sorted(obj, key=str):
            walk(obj[k], f"{path}[{k!r}]", seen, out, owner)
    elif hasattr(obj, "__dict__"):
        for k in sorted(vars(obj)):
            if k == "logger":
                continue
            walk(vars(obj)[k], f"{path}.{k}", seen, out, f"{type(obj).__name__}.{k}")
    return out


def fingerprint(g):
    import copy
    c = copy.deepcopy(g)
    return tuple(int(v) for v in c.integers(0, 2 ** 62, size=DRAWS))


def grams(fp):
    return {fp[i:i + NGRAM] for i in range(len(fp) - NGRAM + 1)}


class Spec(core.PropSpec):
    prop = "C09"
    level = "exploration"
    rule = ("plans = stack (root with 0-2 registered collators [mix, dino-mask] x unseeded XTransformWrapper / KDMultiViewWrapper / "
            "KDMixWrapper layers with transform trees of depth <= 3 x deterministic subset-family layers x container none / "
            "KDConcatDataset / interleaved concat dataset) x K in 1..4 workers x three independent base seeds + a repeat of the "
            "first x batches per epoch x ambient clobber of the main process between epochs x seeded completion order; "
            "non-trivial = K>=2, at least two reachable generators and at least 2 batches per epoch; distinct = distinct "
            "SHA-256 of (schedule, per-worker generator fingerprints, delivered batch hashes)")
    assumptions = ["a stream is identified behaviourally by the next 64 raw draws of a deep copy; overlap = a shared window of 4 draws "
                   "(partial replays further than ~60 draws apart at every snapshot are not detected)",
                   "KDIjepaMaskCollator is not simulated: its multiprocessing.Value cannot cross the pickle boundary that stands for process creation"]
    components = {"real": ["KDDataset/KDWrapper/KDSubset/KDConcatDataset/ModeWrapper worker_init_fn chain", "_InterleavedConcatDataset",
                           "TransformWrapperBase", "KDMultiViewWrapper", "KDTransform.worker_init_fn", "KDComposeTransform",
                           "KDCollatorBase and mix / dino-mask collators", "kappadata.utils.random.get_rng_from_global"],
                  "stub": ["torch DataLoader (simkit.simloader)", "processes (SimProcess)"]}
    tiers = {"quick": dict(runs=2400, budget_s=45), "thorough": dict(runs=80000, budget_s=600)}

    def gen_plan(self, seed, tier):
        st = core.Streams(seed)
        rw = st("world")
        ro = st("ops")
        stack = gen_c09_stack(rw)
        need_class = "mix" in stack["collators"] or any(l["t"] == "mix" for l in stack["layers"])
        need_ctx = "dino" in stack["collators"]
        mode = "x class" if need_class else rw.choice(["x", "index x", "x class"])
        return dict(stack=stack, mode=mode, return_ctx=need_ctx, K=ro.choice([1, 2, 2, 3, 4]),
                    betas=[ro.randint(0, 2 ** 40) for _ in range(3)], batch_size=ro.choice([1, 2, 3]), n_batches=ro.randint(1, 4 if tier == "quick" else 8),
                    hook=ro.random() < 0.93, clobbers=[ro.choice([None, ["np", ro.randint(0, 99)], ["torch", 1], ["py", 2]]) for _ in range(4)],
                    sched_seed=ro.getrandbits(32), amb_main=rw.getrandbits(30), main_hook_rank=ro.choice([None, None, None, 0, 1]),
                    start_method=core.Streams(seed)("preempt").choice(["fork", "fork", "spawn"]),
                    preempt_rate=core.Streams(seed)("preempt2").choice([0, 0, 0, 0, 0, 0, 0, 0, 0.05, 0.3]),
                    env_change=core.Streams(seed)("env").choice([None, None, None, {"RANK": 1, "WORLD_SIZE": 4}, {"SLURM_PROCID": 3}, {"LOCAL_RANK": 2, "RANK": 5}]))

    def shrink_candidates(self, plan):
        st = plan["stack"]
        if st.get("over"):
            yield core._set(plan, ["stack", "over"], [])
        if st["container"]:
            q = core._set(plan, ["stack", "container"], None)
            q["stack"]["over"] = []
            yield q
        if st["collators"]:
            yield core._set(plan, ["stack", "collators"], [])
            for i in range(len(st["collators"])):
                yield core._set(plan, ["stack", "collators"], st["collators"][:i] + st["collators"][i + 1:])
        for i in range(len(st["layers"])):
            yield core._set(plan, ["stack", "layers"], st["layers"][:i] + st["layers"][i + 1:])
        for i, l in enumerate(st["layers"]):
            if "transform" in l:
                for c in C.spec_candidates(l["transform"]):
                    yield core._set(plan, ["stack", "layers", i, "transform"], c)
            if "configs" in l:
                for j, cf in enumerate(l["configs"]):
                    for c in C.spec_candidates(cf["transform"]):
                        yield core._set(plan, ["stack", "layers", i, "configs", j, "transform"], c)
        yield from core.generic_candidates(plan, [], [(["K"], 1), (["n_batches"], 1), (["batch_size"], 1)])
        if any(plan["clobbers"]):
            yield dict(plan, clobbers=[None] * 4)
        if plan.get("main_hook_rank") is not None:
            yield dict(plan, main_hook_rank=None)
        if plan["stack"].get("hook_fault"):
            yield dict(plan, stack=dict(plan["stack"], hook_fault=None))
        if plan.get("env_change"):
            yield dict(plan, env_change=None)

    # ---------------------------------------------------------------------------------------------------------
    def execute(self, plan):
        import torch
        from simkit.chooser import Chooser
        from simkit.deep import h
        from simkit.simloader import SimDataLoader
        from simkit.simproc import SimProcess
        out = core.Outcome()
        stack = plan["stack"]
        main = SimProcess("main", plan["amb_main"])
        try:
            with main.on_cpu():
                ds, collate = build_c09(stack, plan["mode"], plan["return_ctx"])
                n = len(ds)
                probe_sample = ds[0]
        except AssertionError as e:
            out.rejected = True
            out.ev("rejected", str(e)[:80])
            return out
        except Exception as e:
            out.rejected = True
            out.count("rejected:" + type(e).__name__)
            out.ev("rejected", type(e).__name__, str(e)[:80])
            return out
        if plan.get("main_hook_rank") is not None:
            try:
                with main.on_cpu():
                    ds.worker_init_fn(plan["main_hook_rank"])
                out.count("fault:hook_called_in_main_process_first")
            except Exception as e:
                out.rejected = True
                out.ev("rejected", "main-hook", type(e).__name__)
                return out
        K, bs = plan["K"], plan["batch_size"]
        n_main = n - 3 if stack["container"] else n
        if n_main <= 0:
            out.rejected = True
            out.ev("rejected", "empty main dataset")
            return out
        batches = [[(b * bs + j) % n_main for j in range(bs)] for b in range(plan["n_batches"] * K)]
        if stack["container"] == "interleaved_mv_twin":
            for pos_ in range(min(K, len(batches) - 1)):  # one evaluation batch per worker, before its later training batches
                batches[pos_ + (K if len(batches) > 2 * K else 0)] = [n_main + j % 3 for j in range(bs)]
        elif stack["container"] == "interleaved":
            batches[-1] = [n_main + j % 3 for j in range(bs)]  # one pass over the second dataset, never mixed with the first
        elif stack["container"] in ("concat", "concat_shared"):
            batches[-1] = [n_main + j % 3 for j in range(bs)]
        isamp = None
        if stack.get("via_interleaved_sampler"):
            from kappadata.samplers import InterleavedSampler
            from torch.utils.data import SequentialSampler
            try:
                with main.on_cpu():
                    isamp = InterleavedSampler(main_sampler=SequentialSampler(ds), batch_size=min(bs, n), drop_last=False, epochs=1,
                                               main_collator=collate)
            except Exception as e:
                out.rejected = True
                out.ev("rejected", type(e).__name__)
                return out
        inherited = (isamp.dataset, isamp.collator) if isamp is not None else (ds, collate)
        twin = stack["container"] == "interleaved_mv_twin"

        def walk_(obj):
            # the members of the SEEDED evaluation twin are re-seeded per sample by design (that is C08's subject): only the members
            # of the unseeded training dataset and the collators fall under this property
            for p, owner, g in walk(obj):
                if twin and ".datasets[1]" in p:
                    continue
                yield p, owner, g

        forked = {p: (owner, fingerprint(g)) for p, owner, g in walk_(inherited)}
        out.count("logical:reachable_generators", len(forked))
        sessions = []  # per loader epoch: dict(beta, hook fingerprints per worker, trajectories, delivered hashes)

        def run_epoch(beta, clobber):
            if clobber:
                main.clobber(*clobber)
                out.count("fault:ambient_rng_clobber_main")
            rec = dict(beta=beta, hook={}, traj={}, delivered=[])

            class Ld(SimDataLoader):
                chooser = Chooser(seed=f"{plan['sched_seed']}/{len(sessions)}")
                trace = []
                start_method = plan.get("start_method", "fork")
                preempt = dict(seed=f"{plan['sched_seed']}/{len(sessions)}", rate=plan["preempt_rate"]) if plan.get("preempt_rate") else None
                switches = 0

                @staticmethod
                def post_init_probe(worker):
                    rec["hook"][worker.wid] = {p: (owner, fingerprint(g)) for p, owner, g in walk_((worker.dataset, worker.collate_fn))}

                @staticmethod
                def post_batch_probe(worker):
                    rec["traj"].setdefault(worker.wid, []).append({p: fingerprint(g) for p, owner, g in walk_((worker.dataset, worker.collate_fn))})

            if stack.get("via_interleaved_sampler"):
                # the library builds the loader itself (InterleavedSampler.get_data_loader); the base seed then comes from the main
                # process's global torch RNG, which is set to beta here
                import kappadata.samplers.interleaved_sampler as ils
                from simkit.simloader import dataloader_seam
                with main.on_cpu():
                    torch.manual_seed(beta)
                    with dataloader_seam(Ld, ils):
                        for b in isamp.get_data_loader(num_workers=K):
                            rec["delivered"].append(h(b))
                rec["sched"] = Ld.trace
                if Ld.switches:
                    out.count("fault:worker_preempted_inside_a_sample", Ld.switches)
                sessions.append(rec)
                out.count("fault:worker_respawn", K)
                return rec
            kw = dict(batch_sampler=batches, num_workers=K, collate_fn=collate, generator=torch.Generator().manual_seed(beta))
            if plan["hook"]:
                kw["worker_init_fn"] = ds.worker_init_fn
            with main.on_cpu():
                for b in Ld(ds, **kw):
                    rec["delivered"].append(h(b))
            rec["sched"] = Ld.trace
            if Ld.switches:
                out.count("fault:worker_preempted_inside_a_sample", Ld.switches)
            if Ld.start_method == "spawn":
                out.count("fault:workers_started_with_spawn")
            sessions.append(rec)
            out.count("fault:worker_respawn", K)
            return rec

        try:
            for i, beta in enumerate(plan["betas"]):
                run_epoch(beta, plan["clobbers"][i])
            import os as _os
            envf = plan.get("env_change")
            saved_env = {k_: _os.environ.get(k_) for k_ in (envf or {})}
            if envf:
                # the job is requeued / started by another launcher: inherited environment variables differ, the worker seeds do not
                _os.environ.update({k_: str(v_) for k_, v_ in envf.items()})
                out.count("fault:launcher_environment_differs_between_equal_worker_seeds")
            try:
                again = run_epoch(plan["betas"][0], plan["clobbers"][3] or ["np", 4242])
            finally:
                for k_, v_ in saved_env.items():
                    if v_ is None:
                        _os.environ.pop(k_, None)
                    else:
                        _os.environ[k_] = v_
        except Exception as e:
            from .simdata import InjectedReadError
            if stack.get("hook_fault") and (core.caused_by(e, InjectedReadError) or "injected: resource" in str(e)):
                # the loader died loudly with the injected error: an epoch lost to the environment, nothing silently wrong
                out.count("fault:worker_hook_failure_loud")
                out.ev("hook-failure-loud", len(sessions))
                out.tags.append("hook-fault")
                out.nontrivial = plan["K"] >= 1
                return out
            site = self._owner_from_exc(e)
            out.violate(f"C09:raises:{type(e).__name__}", site, f"stack={self._sig(stack)}: {type(e).__name__}: {e}")
            out.ev("raised", type(e).__name__)
            return out
        if stack.get("hook_fault") and plan["hook"]:
            out.count("fault:worker_hook_failure_survived")  # e.g. the failing rank does not exist with this worker count
            out.tags.append("hook-fault-survived")
        first3 = sessions[:3]
        out.ev("sessions", [[s["beta"], s["sched"], s["delivered"], {str(w): {p: core.digest(list(fp))[:8] for p, (o, fp) in d.items()}
                                                                      for w, d in s["hook"].items()}] for s in sessions])
        if not plan["hook"]:
            # the property speaks about the state after the hook has run; without it only reproducibility is asserted
            out.tags.append("no-hook-passed")
        # ---- (iii) same base seed reproduces ------------------------------------------------------------------------------
        s0 = sessions[0]
        if again["delivered"] != s0["delivered"]:
            out.violate("C09:same-worker-seed-not-reproducible", "delivered-batches",
                        f"stack={self._sig(stack)}: two loader epochs with the same base seed delivered different batches "
                        f"(first differing batch {next((i for i, (a, b) in enumerate(zip(again['delivered'], s0['delivered'])) if a != b), '?')})")
        for w in sorted(s0["hook"]):
            for p, (owner, fp) in sorted(s0["hook"][w].items()):
                if again["hook"].get(w, {}).get(p, (None, None))[1] != fp:
                    out.violate("C09:same-worker-seed-not-reproducible", owner,
                                f"stack={self._sig(stack)}: generator {p} of worker {w} differs between two epochs with equal base seed")
                    break
        if plan["hook"]:
            # ---- (i) not the inherited stream ---------------------------------------------------------------------------
            for p, (owner, ffp) in sorted(forked.items()):
                fg = grams(ffp)
                hits = 0
                total = 0
                for s in first3:
                    for w in sorted(s["hook"]):
                        total += 1
                        cur = s["hook"][w].get(p)
                        if cur is not None and grams(cur[1]) & fg:
                            hits += 1
                if total and hits == total:
                    out.violate("C09:keeps-inherited-stream", owner,
                                f"stack={self._sig(stack)}: after worker_init_fn generator {p} still replays the stream it was forked with, "
                                f"in every worker under all {len(first3)} base seeds")
            # ---- (ii) workers never share (part of) a stream ------------------------------------------------------------
            def worker_grams(s, w):
                m = {}
                for p, (owner, fp) in s["hook"][w].items():
                    m.setdefault(p, (owner, set()))[1].update(grams(fp))
                for snap in s["traj"].get(w, []):
                    for p, fp in snap.items():
                        if p in m:
                            m[p][1].update(grams(fp))
                return m

            G = {(si, w): worker_grams(s, w) for si, s in enumerate(first3) for w in s["hook"]}
            # same base seed, different workers: must persist for the same path pair under all three base seeds
            if K >= 2:
                for w1 in range(K):
                    for w2 in range(w1 + 1, K):
                        common = None
                        for si in range(len(first3)):
                            a, b = G.get((si, w1), {}), G.get((si, w2), {})
                            pairs = {(p, q) for p in a for q in b if a[p][1] & b[q][1]}
                            common = pairs if common is None else common & pairs
                        for p, q in sorted(common or []):
                            owner = G[(0, w1)][p][0]
                            out.violate("C09:workers-share-a-stream", owner,
                                        f"stack={self._sig(stack)}: generator {p} of worker {w1} and {q} of worker {w2} replay (part of) the same "
                                        f"stream under all three base seeds")
                            break
            # a seed space so small that members collide again and again: two or more independent overlapping pairs in ONE
            # plan (under 31-bit derived seeds the chance of a single accidental pair is ~1e-7 per plan)
            transient = set()
            owner_of = {}
            for k_ in sorted(G):
                streams_seen = set()
                for p_, (o_, g_) in sorted(G[k_].items()):
                    sid = min(g_) if g_ else None  # aliased members of one worker share one generator by design: one stream
                    if sid is None or sid in streams_seen:
                        continue
                    streams_seen.add(sid)
                    for gram in g_:
                        owner_of.setdefault(gram, set()).add((k_, p_))
            for gram, owners in owner_of.items():
                if len({o[0] for o in owners}) > 1:
                    lst = sorted(owners)
                    for i_ in range(len(lst)):
                        for j_ in range(i_ + 1, len(lst)):
                            if lst[i_][0] != lst[j_][0]:
                                transient.add((lst[i_][0], lst[j_][0], lst[i_][1], lst[j_][1]))
            if len(transient) >= 2 and not out.violations:
                ex = sorted(transient)[:2]
                out.violate("C09:derived-seed-collisions", "seed-derivation",
                            f"stack={self._sig(stack)}: {len(transient)} independent pairs of generators in different workers / under different "
                            f"base seeds replay the same stream within one plan, e.g. {ex}")
            # different base seeds, same worker id
            for w in range(K):
                common = None
                for si in range(len(first3)):
                    for sj in range(si + 1, len(first3)):
                        a, b = G.get((si, w), {}), G.get((sj, w), {})
                        pairs = {p for p in a if p in b and a[p][1] & b[p][1]}
                        common = pairs if common is None else common & pairs
                for p in sorted(common or []):
                    out.violate("C09:stream-ignores-worker-seed", G[(0, w)][p][0],
                                f"stack={self._sig(stack)}: generator {p} of worker {w} replays the same stream under three different base seeds")
                    break
        n_gen = len(forked)
        out.tags.append(f"K={K}")
        if stack["container"]:
            out.tags.append("container:" + stack["container"])
        if stack.get("over"):
            out.tags.append("wrapper-above-concat")
        if stack.get("via_interleaved_sampler"):
            out.tags.append("loader-built-by-interleaved-sampler")
        for c in stack["collators"]:
            out.tags.append("collator:" + c)
        if any(len({id(g) for p, o, g in walk((ds, collate))}) < n_gen for _ in [0]):
            out.tags.append("aliased-generators")
        out.nontrivial = K >= 2 and n_gen >= 2 and plan["n_batches"] >= 2 and plan["hook"]
        return out

    @staticmethod
    def _owner_from_exc(e):
        import traceback
        tb = traceback.extract_tb(e.__traceback__)
        for fr in reversed(tb):
            if "/kappadata/" in fr.filename:
                return fr.filename.split("/kappadata/")[-1].replace(".py", "") + ":" + fr.name
        return "?"

    @staticmethod
    def _sig(stack):
        parts = [f"root[{stack['root']['n']}]" + (f"+collators{stack['collators']}" if stack["collators"] else "")]
        for l in stack["layers"]:
            if l["t"] == "xtw":
                parts.append(f"xtw({C.sig(l['transform'])})")
            elif l["t"] == "multiview":
                parts.append("multiview(" + ";".join(f"{c['n']}x{C.sig(c['transform'])}" for c in l["configs"]) + ")")
            else:
                parts.append(l["t"])
        if stack.get("hook_fault"):
            parts.append(f"xtw(FaultyHook[{stack['hook_fault']}])")
        return "<".join(parts) + (f" in {stack['container']}" if stack["container"] else "")

    def extra_evidence(self, tier, seed):
        from simkit.simloader import stub_validation
        sv = stub_validation(3 if tier == "quick" else 25, seed)
        return {"stub_validation": sv, "traces_validated_against_impl": sv["batches_compared"]}


SPEC = Spec()

"""C06 - resuming the interleaved scheduler yields the suffix of the uninterrupted run.

Fault F6 (pre-emption/resume): a supervisor records the uninterrupted history H of a simtrainer world, kills the
job at an epoch checkpoint k that lies strictly before the budget and restarts it with start_epoch=k,
start_update=k*upe or start_sample=k*spe; chains of several pre-emptions are generated as well (the job is
restarted from a later checkpoint of the already resumed run).
Oracle: constructor refusal (NotImplementedError / assertion) is an acceptable answer; otherwise the resumed
history must equal the suffix of H that follows the last event of epoch k-1 and the run must terminate.
"""
from simkit import core
from . import iltrain as T


def epoch_starts(hist, w):
    """positions in the history at which a main epoch starts (set_epoch event, or iter main when there is none)"""
    marker = "set_epoch" if w["main_kind"] != "noepoch" else "iter"
    return [i for i, e in enumerate(hist) if e[0] == marker and (marker == "set_epoch" or e[1] == "main")]


class Spec(core.PropSpec):
    prop = "C06"
    level = "exploration"
    rule = ("plans = C04/C05 worlds with budget>0 plus a pre-emption list: checkpoints k (epoch boundaries strictly before "
            "the budget) each resumed through start_epoch / start_update / start_sample, and chains of up to 3 successive "
            "pre-emptions; non-trivial = at least one resume accepted by the constructor and the suffix contains at least "
            "one main update; distinct = distinct SHA-256 over (uninterrupted history, every resumed history)")
    assumptions = ["checkpoints are epoch boundaries strictly before the budget (domain of the property)",
                   "a constructor that raises NotImplementedError/AssertionError has answered acceptably"]
    components = {"real": ["InterleavedSampler (constructor checkpoint inference + training loop)"],
                  "stub": ["peer samplers", "supervisor (harness)"]}
    tiers = {"quick": dict(runs=16000, budget_s=45), "thorough": dict(runs=500000, budget_s=600)}
    shrink_lists = T.SHRINK_LISTS + [["preemptions"]]
    shrink_ints = T.SHRINK_INTS + [(["preemptions", "*", "k"], 1)]

    def gen_plan(self, seed, tier):
        st = core.Streams(seed)
        rw = st("world")
        w = T.gen_world(rw, max_n=24 if tier == "quick" else 48, max_cfg=3 if tier == "quick" else 5)
        if w["budget"][1] == 0:
            w["budget"][1] = rw.randint(1, 6)
        rf = st("faults")
        pre = []
        for _ in range(rf.choice([1, 1, 2, 3])):
            pre.append(dict(k=rf.randint(1, 4), field=rf.choice(["start_epoch", "start_update", "start_sample"])))
        rc = st("company")
        company = T.gen_company(rc, w) if w["configs"] and rc.random() < 0.25 else None
        if company and rc.random() < 0.5:
            company.update(B=w["B"], budget=list(w["budget"]), consume="interleaved")  # the uninterrupted twin, taking turns
        overlap = [[rc.randint(0, 12), rc.randint(1, 4)]] if rc.random() < 0.15 else None
        return dict(world=w, preemptions=pre, all_checkpoints=rf.random() < 0.5, foreign_epoch=rf.choice([None, None, 97, 0]),
                    reiterate=rf.random() < 0.25, company=company, overlap=overlap, ship=core.Streams(seed)("ship").random() < 0.2)

    def shrink_candidates(self, plan):
        if plan.get("all_checkpoints"):
            yield dict(plan, all_checkpoints=False)
        if plan.get("company"):
            yield dict(plan, company=None)
        if plan.get("overlap"):
            yield dict(plan, overlap=None)
        if plan.get("ship"):
            yield dict(plan, ship=False)
        yield from T.world_candidates(plan)
        yield from super().shrink_candidates(plan)

    def execute(self, plan):
        out = core.Outcome()
        w = plan["world"]
        if not T.valid_world(w) or w["budget"][1] == 0:
            out.rejected = True
            return out
        ref = T.reference(w)
        if ref is None:
            out.rejected = True
            return out
        cap = len(ref) + 50
        try:
            full, term = T.run_sampler(w, cap=cap)
        except T.Rejected:
            out.rejected = True
            return out
        except Exception as e:
            out.ev("uninterrupted-raised", type(e).__name__)
            out.rejected = True  # C04/C05 report this
            return out
        if any(c["kind"] == "epochperm" for c in w["configs"]):
            ref = T.reference(w, side_epochs=T.side_epochs_of(full))
        if not term or full != ref:
            # the uninterrupted run itself is wrong: that is C04/C05's finding; a suffix oracle built on it is meaningless
            out.ev("uninterrupted-run-deviates-from-reference")
            out.count("skipped:uninterrupted_run_wrong")
            out.rejected = True
            return out
        out.ev("H", core.digest(full)[:16], len(full))
        spe, upe = T.geometry(w)
        starts = epoch_starts(full, w)
        n_ep = len(starts)
        shape = f"short={int(w['N'] % w['B'] != 0 and not w['drop_last'])},dropped={int(spe != w['N'])},ens={int(any(c['ens'] for c in w['configs']))}"
        # checkpoint list: single resumes, then the chain
        singles = []
        if plan.get("all_checkpoints"):
            for k in range(1, n_ep):
                for field in ("start_epoch", "start_update", "start_sample"):
                    singles.append([dict(k=k, field=field)])
        chain = []
        last = 0
        for p in plan["preemptions"]:
            k = last + p["k"]
            if k >= n_ep:
                break
            chain.append(dict(k=k, field=p["field"]))
            last = k
        attempts = singles + [chain[:i + 1] for i in range(len(chain))]
        accepted = 0
        for att in attempts:
            p = att[-1]
            k, field = p["k"], p["field"]
            val = {"start_epoch": k, "start_update": k * upe, "start_sample": k * spe}[field]
            suffix = full[starts[k]:]
            out.count("fault:preemption")
            if len(att) > 1:
                out.count("fault:preemption_in_chain")
            try:
                res, term = T.run_sampler(w, start={field: val}, cap=len(suffix) + 50, foreign_epoch=plan.get("foreign_epoch"),
                                          company=plan.get("company"), overlap=plan.get("overlap"), ship=bool(plan.get("ship")))
                if plan.get("ship"):
                    out.count("fault:resumed_sampler_object_copied_before_use")
                if plan.get("company"):
                    out.count("fault:config_objects_shared_with_second_sampler")
                if plan.get("overlap"):
                    out.count("fault:overlapping_iteration_of_resumed_object")
                res = list(res)
                if plan.get("reiterate") and term:
                    s_obj, s_log = T.run_sampler.last
                    res2, term2 = T.run_sampler(w, cap=len(suffix) + 50, sampler=s_obj, log=s_log)
                    out.count("fault:reiteration_of_resumed_object")
                    if not term2 or list(res2) != res:
                        d2 = T.first_diff(list(res2), suffix)
                        if d2 or not term2:
                            out.violate("C06:second-pass-of-resumed-run-differs", field, f"k={k} {field}={val}: {d2 or 'does not terminate'}")
            except T.Rejected as e:
                out.count("resume_refused_by_constructor")
                out.ev("refused", k, field)
                continue
            except Exception as e:
                out.violate("C06:raises:" + type(e).__name__, field, f"k={k} {field}={val} ({shape}): {type(e).__name__}: {e}")
                continue
            accepted += 1
            out.count("resume_accepted")
            out.ev("resume", k, field, core.digest(res)[:16])
            site = field
            if not term:
                out.violate("C06:no-termination", site, f"k={k} {field}={val}: more than {len(suffix) + 50} indices")
                continue
            d = T.first_diff(res, suffix)
            if d:
                ge = [e for e in res if e[0] == "set_epoch"]
                se = [e for e in suffix if e[0] == "set_epoch"]
                if T.main_projection(res, w["M"]) != T.main_projection(suffix, w["M"]):
                    cls = "C06:main-suffix-mismatch" if ge[:1] == se[:1] else "C06:wrong-epoch-announced"
                else:
                    cls = "C06:side-pass-suffix-mismatch"
                out.violate(cls, site, f"k={k} {field}={val} ({shape}): {d}")
        if n_ep > 1:
            out.tags.append("has-checkpoint-before-budget")
        if any(c["ens"] for c in w["configs"]):
            out.tags.append("every_n_samples-config")
        out.nontrivial = accepted > 0
        return out


SPEC = Spec()

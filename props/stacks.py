"""dataset stacks as JSON specs (serialisable, shrinkable):
  {"root": {"kind": tensor|pil|semseg|dup, "n": size, "clobber": {...}},
   "below": [layer, ...], "seeded": seeded-wrapper spec or None, "above": [layer, ...]}
deterministic layers: subset / shuffle / repeat / percent / classfilter / labelsmooth / onehot
"""
from . import catalog as C

LAYERS = ["subset", "shuffle", "repeat", "percent", "classfilter", "labelsmooth"]


def gen_layer(rng, n):
    t = rng.choice(LAYERS)
    if t == "subset":
        return {"t": "subset", "indices": [rng.randrange(n) for _ in range(rng.randint(1, n + 2))]}
    if t == "shuffle":
        return {"t": "shuffle", "seed": rng.randint(0, 99)}
    if t == "repeat":
        return {"t": "repeat", "r": rng.choice([2, 3])}
    if t == "percent":
        a = rng.choice([0.0, 0.25, 0.5])
        return {"t": "percent", "from": a, "to": rng.choice([0.75, 1.0])}
    if t == "classfilter":
        return {"t": "classfilter", "valid": sorted(rng.sample([0, 1, 2], rng.choice([1, 2])))}
    return {"t": "labelsmooth", "s": rng.choice([0.0, 0.1, 0.3])}


def apply_layer(ds, layer):
    import kappadata.wrappers as W
    t = layer["t"]
    if t == "subset":
        return W.SubsetWrapper(ds, indices=[i for i in layer["indices"] if i < len(ds)] or [0])
    if t == "shuffle":
        return W.ShuffleWrapper(ds, seed=layer["seed"])
    if t == "repeat":
        return W.RepeatWrapper(ds, repetitions=layer["r"])
    if t == "percent":
        return W.PercentFilterWrapper(ds, from_percent=layer["from"], to_percent=layer["to"])
    if t == "classfilter":
        return W.ClassFilterWrapper(ds, valid_classes=layer["valid"])
    if t == "labelsmooth":
        return W.LabelSmoothingWrapper(ds, smoothing=layer["s"])
    if t == "onehot":
        return W.OneHotWrapper(ds)
    raise ValueError(t)


def gen_seeded(rng, root_kind):
    """a seeded sample wrapper spec that fits the root kind"""
    seed = rng.choice([0, 3, rng.randint(0, 10 ** 6)])
    dom = {"tensor": "T", "dup": "T", "pil": "P", "semseg": "T"}[root_kind]
    if root_kind == "semseg":
        ts = rng.sample(["resize", "flip", "crop", "pad", "noise"], rng.randint(1, 4))
        return {"w": "semseg", "seed": seed, "transforms": ts}
    kinds = ["xtw", "xtw", "xtw", "multiview", "ytw", "source", "target"]
    if dom == "T":
        kinds += ["mix", "mix"]
    else:
        kinds += ["byol", "minaug_mv", "minaug_xtw", "mugs"]
    w = rng.choice(kinds)
    if w in ("xtw", "ytw", "source", "target"):
        return {"w": w, "seed": seed, "transform": C.gen_spec(rng, depth=2, dom=dom, allow_list=True, scheduled=False)}
    if w == "multiview":
        cfgs = [{"n": rng.choice([1, 2]), "transform": C.gen_spec(rng, depth=2, dom=dom, keep_only=True, allow_list=True, scheduled=False)}
                for _ in range(rng.randint(1, 2))]
        return {"w": w, "seed": seed, "configs": cfgs}
    if w == "mix":
        return {"w": w, "seed": seed, "p": rng.choice([0.5, 0.8, 1.0]), "alpha": rng.choice([0.8, 1.0])}
    return {"w": w, "seed": seed}


def apply_seeded(ds, s, seed_override="keep"):
    import kappadata.wrappers as W
    import kappadata.transforms as kdt
    from kappadata.common.wrappers.sample_wrappers import (ByolMultiViewWrapper, ImagenetMinaugMultiViewWrapper,
                                                           ImagenetMinaugXTransformWrapper, MUGSMultiViewWrapper)
    seed = s["seed"] if seed_override == "keep" else seed_override
    w = s["w"]
    if w == "xtw":
        return W.XTransformWrapper(ds, C.build(s["transform"]), seed=seed)
    if w == "ytw":
        return W.YTransformWrapper(ds, C.build(s["transform"]), seed=seed)
    if w == "source":
        return W.SourceTransformWrapper(ds, C.build(s["transform"]), seed=seed)
    if w == "target":
        return W.TargetTransformWrapper(ds, C.build(s["transform"]), seed=seed)
    if w == "multiview":
        return W.KDMultiViewWrapper(ds, configs=[(c["n"], C.build(c["transform"])) for c in s["configs"]], seed=seed)
    if w == "mix":
        return W.KDMixWrapper(ds, mixup_p=s["p"], mixup_alpha=s["alpha"], seed=seed)
    if w == "semseg":
        mk = {"resize": lambda: kdt.KDSemsegRandomResize(base_size=(16, 16), ratio=(0.5, 2.0)),
              "flip": lambda: kdt.KDSemsegRandomHorizontalFlip(), "crop": lambda: kdt.KDSemsegRandomCrop(size=8),
              "pad": lambda: kdt.KDSemsegPad(size=20), "noise": lambda: kdt.KDAdditiveGaussianNoise(std=0.5)}
        return W.SemsegTransformWrapper(ds, [mk[t]() for t in s["transforms"]], seed=seed)
    if w == "byol":
        return ByolMultiViewWrapper(ds, seed=seed)
    if w == "minaug_mv":
        return ImagenetMinaugMultiViewWrapper(ds, size=16, seed=seed)
    if w == "minaug_xtw":
        return ImagenetMinaugXTransformWrapper(ds, size=16, seed=seed)
    if w == "mugs":
        return MUGSMultiViewWrapper(ds, global_size=16, local_size=8, num_local_crops=2, seed=seed)
    raise ValueError(w)


def item_of(s):
    return {"ytw": "y", "source": "source", "target": "target"}.get(s["w"], "x")


def build(stack, seed_override="keep"):
    from .simdata import RootDataset, PlainTorchDataset
    r = stack["root"]
    clob = {int(k): tuple(v) for k, v in (r.get("clobber") or {}).items()}
    if r["kind"] == "torchwrap":
        from kappadata.wrappers import TorchWrapper
        ds = TorchWrapper(PlainTorchDataset(r["n"], fail_at=r.get("fail_at") or ()), mode="x class")
    else:
        ds = RootDataset(r["kind"], r["n"], clobber=clob, ctx_tags=bool(r.get("ctx_tags")), ds_id=r.get("ds_id", 0),
                         fail_at=r.get("fail_at") or (), lazy_fail_at=r.get("lazy_fail_at") or ())
    for layer in stack.get("below", []):
        ds = apply_layer(ds, layer)
    if stack.get("seeded"):
        ds = apply_seeded(ds, stack["seeded"], seed_override)
    if stack.get("above_seeded"):
        ds = apply_seeded(ds, stack["above_seeded"], seed_override)
    for layer in stack.get("above", []):
        ds = apply_layer(ds, layer)
    return ds


def gen_stack(rng, seeded=True):
    kind = rng.choice(["tensor", "tensor", "pil", "semseg", "dup"])
    n = rng.randint(2, 8)
    stack = {"root": {"kind": kind, "n": n, "clobber": {}}, "below": [], "seeded": None, "above": []}
    for _ in range(rng.choice([0, 0, 1, 2])):
        stack["below"].append(gen_layer(rng, n))
    if seeded:
        stack["seeded"] = gen_seeded(rng, kind)
    for _ in range(rng.choice([0, 0, 1, 2])):
        stack["above"].append(gen_layer(rng, n))
    return stack


def sig(stack):
    s = stack.get("seeded")
    inner = ""
    if s:
        if "transform" in s:
            inner = C.sig(s["transform"])
        elif "configs" in s:
            inner = ";".join(f"{c['n']}x{C.sig(c['transform'])}" for c in s["configs"])
        elif "transforms" in s:
            inner = ",".join(s["transforms"])
    return (f"{stack['root']['kind']}[{stack['root']['n']}]" + "".join("<" + l["t"] for l in stack.get("below", [])) +
            (f"<{s['w']}({inner})" if s else "") + (f"<{stack['above_seeded']['w']}(seeded)" if stack.get("above_seeded") else "") +
            "".join("<" + l["t"] for l in stack.get("above", [])))

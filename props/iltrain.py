"""simtrainer: the simulated training driver around InterleavedSampler, shared by C04, C05 and C06.

Parties: an instrumented main sampler (peer that logs set_epoch / iteration start
into the global event log and whose order may depend on the announced epoch),
instrumented side samplers, the batch cutter (_InterleavedBatchSampler), a
consumer, optionally the simulated DataLoader with K workers, and a supervisor
that pre-empts the job at an epoch checkpoint and restarts it with start_*.

The reference model below is written from the property statements with closed
arithmetic over the three logical clocks (epoch, update, sample); it never
looks at the implementation.
"""
import math
import random

from simkit import core


# ----------------------------------------------------------------------------------------------
# instrumented peers (harness-owned user objects)
# ----------------------------------------------------------------------------------------------
def injection(name, n, m, kind, epoch=None, dist=None):
    """the index stream of a sampler: n distinct indices out of range(m)"""
    if kind in ("seq", "noepoch"):
        return list(range(n))
    if kind == "dist":
        # a real rank-aware sampler: its own iteration for the announced epoch, computed on a fresh instance
        from kappadata.samplers import DistributedSampler
        s = DistributedSampler(_Sized(m), num_replicas=dist["W"], rank=dist["rank"], shuffle=True, seed=dist["seed"])
        s.set_epoch(epoch or 0)
        return [int(i) for i in s]
    if kind == "real_seq":
        return list(range(m))  # torch SequentialSampler over the whole dataset
    if kind == "dist_seq":
        from kappadata.samplers import DistributedSampler
        return [int(i) for i in DistributedSampler(_Sized(m), num_replicas=dist["W"], rank=dist["rank"], shuffle=False)]
    pool = list(range(m))
    if kind == "fixedperm":
        random.Random(f"inj/{name}").shuffle(pool)
    elif kind == "perm":
        random.Random(f"inj/{name}/{epoch}").shuffle(pool)
    else:
        raise ValueError(kind)
    return pool[:n]


class _Sized:
    """stands for a dataset of m samples when only its length matters"""

    def __init__(self, m):
        self.m = m

    def __len__(self):
        return self.m


def make_sampler(name, n, m, kind, log, source_attr="data_source", dataset=None, dist=None):
    if kind == "dist":
        from kappadata.samplers import DistributedSampler

        class D(DistributedSampler):
            def set_epoch(self, e):
                log.append(["set_epoch", e])
                super().set_epoch(e)

            def __iter__(self):
                log.append(["iter", name])
                yield from super().__iter__()

        return D(dataset if dataset is not None else _Sized(m), num_replicas=dist["W"], rank=dist["rank"], shuffle=True, seed=dist["seed"])

    if kind in ("real_seq", "dist_seq"):
        # real library samplers as side samplers (what the repository's own tests use), instrumented by subclassing
        from torch.utils.data import SequentialSampler
        from kappadata.samplers import DistributedSampler
        base_cls = SequentialSampler if kind == "real_seq" else DistributedSampler

        class R(base_cls):
            def __iter__(self):
                log.append(["iter", name])
                yield from super().__iter__()

        data = dataset if dataset is not None else _Sized(m)
        return R(data) if kind == "real_seq" else R(data, num_replicas=dist["W"], rank=dist["rank"], shuffle=False)

    class Base:
        len_override = None  # a sampler whose pool grows / shrinks between two uses reports another length

        def __len__(self):
            return n if self.len_override is None else self.len_override

    if kind == "epochperm":
        class S(Base):
            epoch = 0

            def set_epoch(self, e):  # user-managed (or announced by a scheduler that chooses to); the effect is visible below
                self.epoch = e

            def __iter__(self):
                log.append(["iter", name, self.epoch])
                yield from injection(name, n, m, "perm", self.epoch)
    elif kind == "noepoch" or name != "main":
        class S(Base):
            def __iter__(self):
                log.append(["iter", name])
                yield from injection(name, n, m, kind)
    else:
        class S(Base):
            epoch = None

            def set_epoch(self, e):
                self.epoch = e
                log.append(["set_epoch", e])

            def __iter__(self):
                log.append(["iter", name])
                yield from injection(name, n, m, kind, self.epoch)
    s = S()
    setattr(s, source_attr, dataset if dataset is not None else _Sized(m))
    return s


# ----------------------------------------------------------------------------------------------
# world generation (swarm)
# ----------------------------------------------------------------------------------------------
def gen_world(rng, max_n=40, allow_multi_kind=True, max_cfg=4, loader=False):
    N = rng.choice([1, 2, 3, rng.randint(1, 12), rng.randint(1, 12), rng.randint(1, max_n)])
    r = rng.random()
    if r < 0.15:
        B = 1
    elif r < 0.3:
        B = N
    elif r < 0.5:
        divs = [d for d in range(1, N + 1) if N % d == 0]
        B = rng.choice(divs)
    elif r < 0.65:
        cands = [d for d in range(1, N + 1) if N % d == 1] or [1]
        B = rng.choice(cands)
    else:
        B = rng.randint(1, N)
    dl = rng.random() < 0.5
    dlbs = None
    if dl and rng.random() < 0.35:
        dlbs = B * rng.randint(1, max(1, N // B))
    unit = (dlbs or B) if dl else None
    spe = N // unit * unit if dl else N
    upe = math.ceil(spe / B)
    kind = rng.choice(["epochs", "updates", "samples"])
    if rng.random() < 0.08:
        val = 0
    elif kind == "epochs":
        val = rng.randint(1, 4)
    elif kind == "updates":
        val = rng.choice([rng.randint(1, 4 * upe + 2), upe * rng.randint(1, 3), upe * rng.randint(1, 3) + rng.choice([-1, 1])])
    else:
        val = rng.choice([rng.randint(1, 4 * spe + 2), spe * rng.randint(1, 3), spe * rng.randint(1, 3) + rng.choice([-1, 1]),
                          B * rng.randint(1, 6)])
    val = max(val, 0)
    configs = []
    for ci in range(rng.choice([0, 1, 1, 2, 2, 3, max_cfg])):
        n = rng.choice([0, 1, 2, rng.randint(0, 9)])
        c = dict(n=n, m=n + rng.choice([0, 0, 1, 3]), ene=None, enu=None, ens=None,
                 bs=rng.choice([None, None, 1, 2, 3, 5]), kind=rng.choice(["seq", "fixedperm"]))
        r = rng.random()
        if r > 0.88:
            c["kind"] = "epochperm"
        if r < 0.12:
            c.update(kind="real_seq", m=n)
        elif r < 0.24 and n > 0:
            W = rng.choice([2, 3])
            c.update(kind="dist_seq", dist=dict(W=W, rank=rng.randrange(W)), m=n * W - rng.randrange(W))
            if c["m"] < 1:
                c["m"] = n * W
        nk = rng.choice([1, 1, 1, 2, 3]) if allow_multi_kind else 1
        for k in rng.sample(["ene", "enu", "ens"], nk):
            if k == "ene":
                c[k] = rng.randint(1, 3)
            elif k == "enu":
                c[k] = rng.choice([1, 2, 3, upe, upe + 1, rng.randint(1, 2 * upe + 1)])
            else:
                c[k] = rng.choice([1, B, B + 1, 2 * B, spe, spe + 1, max(1, spe - 1), rng.randint(1, 2 * spe + 1)])
        if rng.random() < 0.12 and c["kind"] in ("seq", "fixedperm", "epochperm"):
            c["share_with"] = rng.randrange(ci + 1)  # 0 = the main dataset, j = config j-1
        configs.append(c)
    w = dict(N=N, M=N + rng.choice([0, 0, 2, 5]), B=B, drop_last=dl, dlbs=dlbs, budget=[kind, val], configs=configs,
             main_kind=rng.choice(["seq", "perm", "perm", "noepoch"]), source_attr=rng.choice(["data_source", "dataset"]))
    if rng.random() < 0.15:
        # a real kd.DistributedSampler as main sampler: len(sampler) = ceil(M / W) = N
        W = rng.choice([1, 2, 3])
        w["dist"] = dict(W=W, rank=rng.randrange(W), seed=rng.randint(0, 99))
        w["M"] = N * W - rng.randrange(W)
        if w["M"] < 1:
            w["M"] = N * W
        w["main_kind"] = "dist"
        w["source_attr"] = "dataset"
    for ci, c in enumerate(w["configs"]):
        if c.get("share_with") is not None:
            src_m = w["M"] if c["share_with"] == 0 else w["configs"][c["share_with"] - 1]["m"]
            if src_m < c["n"]:
                c.pop("share_with")
            else:
                c["m"] = src_m
    return w


def geometry(w):
    N, B, dl, dlbs = w["N"], w["B"], w["drop_last"], w["dlbs"]
    unit = (dlbs or B) if dl else None
    spe = N // unit * unit if dl else N
    upe = math.ceil(spe / B) if spe else 0
    return spe, upe


def valid_world(w):
    N, B = w["N"], w["B"]
    if not (isinstance(N, int) and isinstance(B, int) and 1 <= B <= N and w["M"] >= N):
        return False
    if w["main_kind"] == "dist" and (not w.get("dist") or -(-w["M"] // w["dist"]["W"]) != N or w["dist"]["rank"] >= w["dist"]["W"]):
        return False
    if w["dlbs"] is not None and not (w["drop_last"] and w["dlbs"] % B == 0 and B <= w["dlbs"] <= N):
        return False
    if w["budget"][1] < 0:
        return False
    for ci_, c in enumerate(w["configs"]):
        if c["m"] < c["n"] or c["n"] < 0:
            return False
        if c["kind"] == "real_seq" and c["m"] != c["n"]:
            return False
        if c.get("share_with") is not None:
            j = c["share_with"]
            if j > ci_ or c["m"] != (w["M"] if j == 0 else w["configs"][j - 1]["m"]):
                return False
        if c["kind"] == "dist_seq" and (not c.get("dist") or -(-c["m"] // c["dist"]["W"]) != c["n"] or c["dist"]["rank"] >= c["dist"]["W"]):
            return False
        if all(c[k] is None for k in ("ene", "enu", "ens")):
            return False
        if any(c[k] is not None and c[k] < 1 for k in ("ene", "enu", "ens", "bs")):
            return False
    return True


# ----------------------------------------------------------------------------------------------
# reference model
# ----------------------------------------------------------------------------------------------
def offsets(w):
    offs = [w["M"]]
    for c in w["configs"]:
        offs.append(offs[-1] + c["m"])
    return offs


def side_epochs_of(history):
    """the epoch each epoch-sensitive side sampler reported at each of its passes, in order: {name: [e, ...]}"""
    out = {}
    for e in history:
        if e[0] == "iter" and len(e) > 2:
            out.setdefault(e[1], []).append(e[2])
    return out


def reference(w, start_epoch=0, max_events=200000, side_epochs=None):
    """expected history of one (possibly resumed) run:
       ["set_epoch", e] / ["iter", name] / ["out", global_index, batch_ends_here]"""
    N, M, B = w["N"], w["M"], w["B"]
    kind, val = w["budget"]
    ev = []
    offs = offsets(w)
    has_epoch = w["main_kind"] != "noepoch"

    passes = {}

    def side(ci):
        c = w["configs"][ci]
        bs = c["bs"] or B
        name = f"c{ci}"
        if c["kind"] == "epochperm":
            # "all indices of its sampler": its own iteration under whatever epoch it held when the pass started
            k = passes.get(name, 0)
            passes[name] = k + 1
            known = (side_epochs or {}).get(name, [])
            e_side = known[k] if k < len(known) else 0
            ev.append(["iter", name, e_side])
            stream = injection(name, c["n"], c["m"], "perm", e_side)
        else:
            ev.append(["iter", name])
            stream = injection(name, c["n"], c["m"], c["kind"], dist=c.get("dist"))
        for j, i in enumerate(stream):
            ev.append(["out", offs[ci] + i, (j + 1) % bs == 0 or j + 1 == c["n"]])

    if val == 0:
        for ci in range(len(w["configs"])):
            side(ci)
        return ev
    spe, upe = geometry(w)
    if spe == 0:
        return None  # degenerate: no update can ever happen; not in the domain (B <= N guarantees spe >= B)
    epoch = start_epoch
    while True:
        if has_epoch:
            ev.append(["set_epoch", epoch])
        ev.append(["iter", "main"])
        order = injection("main", N, M, w["main_kind"], epoch, w.get("dist"))[:spe]
        for b in range(upe):
            batch = order[b * B:(b + 1) * B]
            for j, i in enumerate(batch):
                ev.append(["out", i, j == len(batch) - 1])
            update = epoch * upe + b + 1  # number of updates done so far (global clock)
            sample = epoch * spe + min((b + 1) * B, spe)  # number of samples consumed so far
            prev_sample = sample - len(batch)
            ended = b == upe - 1
            epochs_done = epoch + 1 if ended else epoch
            for ci, c in enumerate(w["configs"]):
                due = False
                if c["ene"] and ended and epochs_done % c["ene"] == 0:
                    due = True
                if c["enu"] and update % c["enu"] == 0:
                    due = True
                if c["ens"] and sample // c["ens"] > prev_sample // c["ens"]:
                    due = True
                if due:
                    side(ci)
            if (kind == "epochs" and epochs_done == val) or (kind == "updates" and update == val) or \
                    (kind == "samples" and sample >= val):
                return ev
            if len(ev) > max_events:
                return None
        epoch += 1


# ----------------------------------------------------------------------------------------------
# running the real thing
# ----------------------------------------------------------------------------------------------
class Rejected(Exception):
    pass


class InjectedSamplerError(OSError):
    """the storage / index file behind a side sampler fails while the sampler is being iterated (fault injected by the harness)"""


class FailingSampler:
    """proxy around a side sampler: its `p`-th pass (0-based) raises after k indices; everything else is the sampler's own"""

    def __init__(self, inner, p, k, log):
        self.__dict__.update(_inner=inner, _p=p, _k=k, _passes=0, _log=log)

    def __getattr__(self, name):
        if name.startswith("_"):
            raise AttributeError(name)  # (also keeps copy / pickle from recursing on a half-built instance)
        return getattr(self.__dict__["_inner"], name)

    def __setattr__(self, name, value):
        setattr(self._inner, name, value)

    def __len__(self):
        return len(self._inner)

    def __iter__(self):
        me = self.__dict__
        this = me["_passes"]
        me["_passes"] += 1
        it = iter(self._inner)
        if this != me["_p"]:
            yield from it
            return
        for j, idx in enumerate(it):
            if j >= me["_k"]:
                me["_log"].append(["side-sampler-fails"])
                raise InjectedSamplerError(5, f"injected: side sampler fails after {j} indices of pass {this}")
            yield idx


def make_configs(w, log, objs, collators=None, side_fault=None):
    from kappadata.samplers.interleaved_sampler import InterleavedSamplerConfig
    attr = w.get("source_attr", "data_source")
    cfgs = []
    for ci, c in enumerate(w["configs"]):
        s = make_sampler(f"c{ci}", c["n"], c["m"], c["kind"], log, attr, dataset=objs[ci + 1], dist=c.get("dist"))
        if side_fault and side_fault["ci"] % len(w["configs"]) == ci:
            s = FailingSampler(s, side_fault["p"], side_fault["k"], log)
        cfgs.append(InterleavedSamplerConfig(sampler=s, every_n_epochs=c["ene"], every_n_updates=c["enu"],
                                             every_n_samples=c["ens"], batch_size=c["bs"],
                                             collator=collators[ci + 1] if collators else None))
    return cfgs


def build(w, log, start=None, datasets=None, collators=None, cfg_objs=None, only_configs=False, side_fault=None, main_obj=None,
          only_main=False):
    from kappadata.samplers.interleaved_sampler import InterleavedSampler, InterleavedSamplerConfig
    attr = w.get("source_attr", "data_source")
    objs = list(datasets) if datasets else [_Sized(w["M"])] + [_Sized(c["m"]) for c in w["configs"]]
    for ci, c in enumerate(w["configs"]):
        if c.get("share_with") is not None and c["share_with"] <= ci:
            objs[ci + 1] = objs[c["share_with"]]  # the very same dataset object, used by two samplers
    main = main_obj if main_obj is not None else \
        make_sampler("main", w["N"], w["M"], w["main_kind"], log, attr, dataset=objs[0], dist=w.get("dist"))
    if only_main:
        return main
    cfgs = cfg_objs if cfg_objs is not None else make_configs(w, log, objs, collators, side_fault)
    if only_configs:
        return cfgs
    kw = {w["budget"][0]: w["budget"][1]}
    if start:
        kw.update(start)
    try:
        return InterleavedSampler(main_sampler=main, batch_size=w["B"], configs=cfgs, drop_last=w["drop_last"],
                                  drop_last_batch_size=w["dlbs"], main_collator=collators[0] if collators else None, **kw)
    except (AssertionError, NotImplementedError) as e:
        raise Rejected(f"{type(e).__name__}: {e}")


def gen_company(rng, w):
    """a second InterleavedSampler built from the SAME config objects (a trainer that builds its eval configs once and uses them
    for an eval-only sampler and for the training sampler): other main batch size, its own main sampler, own budget"""
    comp = dict(order=rng.choice(["before", "after"]), B=rng.choice([1, 2, 3, 5, 8]), budget=rng.choice([["epochs", 0], ["epochs", 1], ["updates", 3]]),
                consume=rng.choice(["none", "all", "interleaved", "interleaved"]), pattern=rng.getrandbits(32))
    if rng.random() < 0.3 and w["main_kind"] not in ("dist",):
        # the earlier sampler was built over the very SAME main sampler object, with the same batch parameters, at a time when
        # that sampler reported another length (its pool has changed since); it is never iterated
        comp.update(order="before", consume="none", share_main_len=rng.choice([w["N"] + rng.randint(1, 9), max(w["B"], w["N"] - rng.randint(1, 3)),
                                                                             2 * w["N"] + 1]), B=w["B"], budget=list(w["budget"]))
    return comp


def _build_company(w, s, comp, log, main_obj=None):
    from kappadata.samplers.interleaved_sampler import InterleavedSampler
    junk = []
    if main_obj is not None:
        main_obj.len_override = comp["share_main_len"]
        try:
            return InterleavedSampler(main_sampler=main_obj, batch_size=w["B"], configs=s, drop_last=w["drop_last"],
                                      drop_last_batch_size=w["dlbs"], **{comp["budget"][0]: comp["budget"][1]})
        except (AssertionError, NotImplementedError) as e:
            raise Rejected(f"company: {type(e).__name__}: {e}")
        finally:
            main_obj.len_override = None
    n2 = max(w["N"], comp["B"])
    m2 = max(w["M"], n2)
    main2 = make_sampler("main2", n2, m2, "seq", junk, w.get("source_attr", "data_source"), dataset=_Sized(m2))
    try:
        return InterleavedSampler(main_sampler=main2, batch_size=comp["B"], configs=s if isinstance(s, list) else s.configs,
                                  drop_last=False, **{comp["budget"][0]: comp["budget"][1]})
    except (AssertionError, NotImplementedError) as e:
        raise Rejected(f"company: {type(e).__name__}: {e}")


def run_sampler(w, start=None, via="sampler", cap=None, sampler=None, log=None, foreign_epoch=None, company=None, overlap=None,
                side_fault=None, ship=False):
    """returns (history, terminated); `sampler`/`log` allow a second pass over the same object.
    company: see gen_company - its own events never enter the history (the shared samplers' log entries made while the company
    runs are cut out again); overlap: [(position, n)] - after `position` items of this iteration a second iterator over the same
    object is started and advanced by n items while the first one is suspended"""
    import random as _random
    comp_obj = None
    if sampler is None:
        log = []
        if company is not None and company["order"] == "before":
            # configs first, company second, the sampler under test last
            cfgs = build(w, log, start, only_configs=True)
            main_obj = None
            if company.get("share_main_len") is not None:
                main_obj = build(w, log, start, only_main=True)
                if not hasattr(main_obj, "len_override"):
                    main_obj = None
            comp_obj = _build_company(w, cfgs, company, log, main_obj=main_obj)
            s = build(w, log, start, cfg_objs=cfgs, main_obj=main_obj)
        else:
            s = build(w, log, start, side_fault=side_fault)
            if company is not None:
                comp_obj = _build_company(w, s, company, log)
        if ship:
            # the configured sampler object is copied before use (deepcopy goes through the same __reduce_ex__ / __getstate__ /
            # __setstate__ protocol as pickling into another process; the instrumented peer samplers keep writing to `log`)
            import copy
            s = copy.deepcopy(s)
        if foreign_epoch is not None and hasattr(s.main_sampler, "epoch"):
            s.main_sampler.epoch = foreign_epoch  # user code used the sampler before; nothing is announced to us
    else:
        s = sampler
        del log[:]
    run_sampler.last = (s, log)
    cap = cap if cap is not None else 10 ** 6

    def silently(fn):
        n0 = len(log)
        try:
            return fn()
        finally:
            del log[n0:]

    def items(obj):
        return iter(obj) if via == "sampler" else iter(obj.batch_sampler)

    comp_it = None
    if comp_obj is not None:
        if company["consume"] == "all":
            silently(lambda: sum(1 for _ in zip(range(5000), items(comp_obj))))
        elif company["consume"] == "interleaved":
            comp_it = silently(lambda: items(comp_obj))
    pat = _random.Random(company["pattern"]) if comp_it is not None else None
    overlap = sorted(overlap or [])
    others = []  # overlapping iterators are kept alive until the end (nobody closes them)
    n = 0
    pos = 0
    it = items(s)
    while True:
        if comp_it is not None and pat.random() < 0.5:
            k = pat.randint(1, 3)
            silently(lambda: [next(comp_it, None) for _ in range(k)])
        while overlap and overlap[0][0] <= pos:
            _, k = overlap.pop(0)
            n0 = len(log)
            o = items(s)
            for _ in range(k):
                if next(o, None) is None:
                    break
            others.append(o)
            del log[n0:]
        try:
            got = next(it)
        except StopIteration:
            break
        except Exception as e:
            if not core.caused_by(e, InjectedSamplerError):
                raise
            log.append(["raised"])  # the stream ends loudly with the injected error (possibly wrapped in one of the library's own)
            return log, True
        pos += 1
        if via == "sampler":
            full, idx = got
            log.append(["out", int(idx), bool(full)])
            n += 1
        else:
            for j, idx in enumerate(got):
                log.append(["out", int(idx), j == len(got) - 1])
            n += len(got)
            if len(got) == 0:
                log.append(["empty-batch"])
        if n > cap:
            return log, False
    return log, True


def main_projection(events, M):
    return [e for e in events if e[0] == "set_epoch" or (e[0] == "iter" and e[1] == "main") or (e[0] == "out" and e[1] < M)]


def first_diff(a, b):
    for i, (x, y) in enumerate(zip(a, b)):
        if x != y:
            return f"event {i}: got {x} expected {y}"
    if len(a) != len(b):
        return f"length {len(a)} vs expected {len(b)}; next: got {a[len(b):len(b) + 2]} expected {b[len(a):len(a) + 2]}"
    return None


def shape_of(w):
    """coarse configuration shape used as the 'site' of a violation"""
    kinds = sorted({k for c in w["configs"] for k in ("ene", "enu", "ens") if c[k] is not None})
    multi = any(sum(c[k] is not None for k in ("ene", "enu", "ens")) > 1 for c in w["configs"])
    return f"budget={w['budget'][0]},kinds={'+'.join(kinds) or '-'},multi={int(multi)}"


SHRINK_LISTS = [["world", "configs"]]
SHRINK_INTS = [(["world", "N"], 1), (["world", "B"], 1), (["world", "M"], 1), (["world", "budget", 1], 0),
               (["world", "configs", "*", "n"], 0), (["world", "configs", "*", "m"], 0),
               (["world", "configs", "*", "ene"], 1), (["world", "configs", "*", "enu"], 1),
               (["world", "configs", "*", "ens"], 1), (["world", "configs", "*", "bs"], 1), (["world", "dlbs"], 1),
               (["K"], 0), (["prefetch"], 1)]


def world_candidates(plan):
    """extra, structure-aware simplifications tried before the generic ones"""
    w = plan["world"]
    if w["main_kind"] not in ("seq", "dist"):
        yield core._set(plan, ["world", "main_kind"], "seq")
    if w["M"] != w["N"] and w["main_kind"] != "dist":
        yield core._set(plan, ["world", "M"], w["N"])
    if w["dlbs"] is not None:
        yield core._set(plan, ["world", "dlbs"], None)
    for ci, c in enumerate(w["configs"]):
        if c["kind"] not in ("seq", "dist_seq", "real_seq", "epochperm"):
            yield core._set(plan, ["world", "configs", ci, "kind"], "seq")
        if c["m"] != c["n"] and c["kind"] != "dist_seq" and c.get("share_with") is None:
            yield core._set(plan, ["world", "configs", ci, "m"], c["n"])
        if c.get("share_with") is not None:
            yield core._set(plan, ["world", "configs", ci, "share_with"], None)
        if c["bs"] is not None:
            yield core._set(plan, ["world", "configs", ci, "bs"], None)
        ks = [k for k in ("ene", "enu", "ens") if c[k] is not None]
        if len(ks) > 1:
            for k in ks:
                yield core._set(plan, ["world", "configs", ci, k], None)
    # shrink N and M together
    if w["N"] > 1 and w["M"] == w["N"] and w["main_kind"] != "dist":
        for n in (w["N"] // 2, w["N"] - 1):
            if n >= 1:
                p = core._set(plan, ["world", "N"], n)
                p["world"]["M"] = n
                p["world"]["B"] = min(p["world"]["B"], n)
                yield p

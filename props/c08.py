"""C08 - seeded sample wrappers make sample i a pure function of (data, config, seed, i)  (simloader engine).

A stack with one seeded sample wrapper (below and/or above deterministic wrappers) is mode-wrapped and served by
the simulated DataLoader: K workers holding pickled replicas, an index program with permutations and repeats (the
batch list decides the index->worker assignment), several loader epochs (worker respawn, new base seeds), ambient
RNG clobbers in the main process and - through the root dataset - inside workers, seeded completion order.
Oracle: every delivered sample (and context) equals the value a fresh reference process computes for that index
(fresh construction under another ambient state, single access).  Run class 'streams': identical underlying data +
additive Gaussian noise, different indices must give different outputs.
"""
from simkit import core
from . import catalog as C
from . import stacks as S

MODES = {
    "x": ["x", "index x", "x class", "class x", "index x class", "x x"],
    "mix": ["x class", "class x", "x", "class", "index x class", "class index x"],
    "semseg": ["x semseg", "semseg x", "x", "semseg", "index semseg x"],
    "y": ["y", "index y", "x y"], "source": ["source", "x source"], "target": ["target", "target class"],
}


def mode_family(seeded):
    if seeded["w"] == "mix":
        return "mix"
    if seeded["w"] == "semseg":
        return "semseg"
    return S.item_of(seeded)


class Spec(core.PropSpec):
    prop = "C08"
    level = "exploration"
    rule = ("plans = stack (root tensor/PIL/semseg/duplicate-data x deterministic wrappers below/above x one seeded sample wrapper: "
            "X/Y/Source/TargetTransformWrapper, KDMultiViewWrapper, KDMixWrapper, SemsegTransformWrapper, ByolMultiView, "
            "ImagenetMinaug*, MUGSMultiView, with random transform trees) x mode string x K in 0..4 workers x loader epochs "
            "(respawn) x batch lists with permutations/repeats (index->worker assignment) x ambient RNG clobbers in main and "
            "worker processes x worker_init_fn on/off x seeded completion order; non-trivial = K>=1, at least one index "
            "delivered twice (repeat or second epoch) and at least one clobber or respawn happened; distinct = distinct "
            "SHA-256 of (schedule, delivered sample hashes)")
    assumptions = ["the reference value for index i is computed by the same real code in a fresh simulated process (fresh "
                   "construction, one access)", "root datasets return fresh objects per access (repo test convention)"]
    components = {"real": ["all seeded sample wrappers", "deterministic dataset wrappers", "ModeWrapper", "transform catalogue",
                           "torch _MapDatasetFetcher"],
                  "stub": ["torch DataLoader (simkit.simloader)", "worker/main processes (SimProcess)", "root datasets (harness)"]}
    tiers = {"quick": dict(runs=2400, budget_s=45), "thorough": dict(runs=80000, budget_s=600)}

    def gen_plan(self, seed, tier):
        st = core.Streams(seed)
        rw = st("world")
        ro = st("ops")
        streams = rw.random() < 0.15
        if streams:
            n = rw.randint(3, 8)
            tree = {"t": "compose", "items": [C.gen_spec(rw, depth=1, dom="T", keep_only=True, scheduled=False), {"t": "leaf", "name": "KDAdditiveGaussianNoise"}]}
            w = rw.choice(["xtw", "multiview", "ytw", "semseg", "mix", "xtw_over_mix"])
            above_seeded = None
            if w == "xtw_over_mix":
                # a seeded transform wrapper above a fused-operation wrapper, read through the jointly loaded path ("x class")
                seeded = {"w": "mix", "seed": rw.randint(0, 999), "p": 0.5, "alpha": 1.0}
                above_seeded = {"w": "xtw", "seed": rw.randint(0, 999), "transform": tree}
                root = "dup"
            elif w == "mix":
                # the mixing weight (a continuous Beta draw) is readable from the label vector
                seeded = {"w": "mix", "seed": rw.randint(0, 999), "p": 1.0, "alpha": rw.choice([0.8, 1.0])}
                root = "tensor"
            elif w == "semseg":
                seeded = {"w": "semseg", "seed": rw.randint(0, 999), "transforms": ["flip", "noise"]}
                root = "dup"
            elif w == "multiview":
                seeded = {"w": w, "seed": rw.randint(0, 999), "configs": [{"n": 2, "transform": tree}]}
                root = "dup"
            else:
                seeded = {"w": w, "seed": rw.randint(0, 999), "transform": tree}
                root = "dup"
            stack = {"root": {"kind": root, "n": n, "clobber": {}}, "below": [], "seeded": seeded, "above": []}
            if above_seeded:
                stack["above_seeded"] = above_seeded
        else:
            stack = S.gen_stack(rw, seeded=True)
        fam = mode_family(stack["seeded"])
        mode = rw.choice(MODES[fam])
        if streams:
            mode = "class" if stack["seeded"]["w"] == "mix" else S.item_of(stack["seeded"])  # the random item itself
            if stack.get("above_seeded"):
                mode = rw.choice(["x class", "class x"])
        K = ro.choice([0, 1, 2, 2, 3, 4])
        epochs = []
        for _ in range(ro.choice([1, 2, 2, 3] + ([4, 5] if tier != "quick" else []))):
            nb = ro.randint(1, 6 if tier == "quick" else 12)
            batches = [[ro.randrange(1000) for _ in range(ro.randint(1, 4))] for _ in range(nb)]
            epochs.append(dict(batches=batches, gen_seed=ro.choice([None, ro.randint(0, 99)]),
                               clobber_main=ro.choice([None, None, ["np", ro.randint(0, 99)], ["torch", ro.randint(0, 99)], ["py", 5]]),
                               init_fn=ro.random() < 0.7))
        for _ in range(ro.choice([0, 0, 1, 2])):
            stack["root"]["clobber"][str(ro.randint(0, 12))] = [ro.choice(["np", "torch", "py", "advance"]), ro.randint(0, 999)]
        if ro.random() < 0.2:
            stack["root"]["fail_at"] = sorted({ro.randint(1, 15) for _ in range(ro.randint(1, 2))})  # transient storage errors
        rl = st("lazy")
        if stack["root"].get("kind") == "pil" and rl.random() < 0.35:
            # the read error surfaces INSIDE the transform (lazily decoded image), after it may have drawn random numbers
            stack["root"]["lazy_fail_at"] = sorted({rl.randint(1, 12) for _ in range(rl.randint(1, 3))})
        if ro.random() < 0.15 and not streams:
            stack["seeded"]["seed"] = ro.choice([2 ** 31 - 1, 2 ** 32 + 5, 2 ** 62 + 11])  # "all seeds"
        rp = core.Streams(seed)("preempt")
        return dict(cls="streams" if streams else "purity", stack=stack, mode=mode, return_ctx=(not streams) and rw.random() < 0.6,
                    K=K, prefetch=ro.choice([1, 2, 3]), epochs=epochs, sched_seed=ro.getrandbits(32), amb_main=rw.getrandbits(30),
                    amb_ref=rw.getrandbits(30), start_method=rp.choice(["fork", "fork", "spawn"]), preempt_rate=rp.choice([0, 0, 0, 0.05, 0.3]))

    def shrink_candidates(self, plan):
        st = plan["stack"]
        sd = st["seeded"]
        if st["above"]:
            yield core._set(plan, ["stack", "above"], [])
        if st["below"]:
            yield core._set(plan, ["stack", "below"], [])
        if st["root"]["clobber"]:
            yield core._set(plan, ["stack", "root", "clobber"], {})
        if plan["cls"] == "streams":
            yield from core.generic_candidates(plan, [["epochs"]], [(["K"], 0), (["stack", "root", "n"], 2)])
            return
        if "transform" in sd:
            for c in C.spec_candidates(sd["transform"]):
                yield core._set(plan, ["stack", "seeded", "transform"], c)
        if "configs" in sd:
            if len(sd["configs"]) > 1:
                for i in range(len(sd["configs"])):
                    yield core._set(plan, ["stack", "seeded", "configs"], sd["configs"][:i] + sd["configs"][i + 1:])
            for i, c in enumerate(sd["configs"]):
                for cc in C.spec_candidates(c["transform"]):
                    yield core._set(plan, ["stack", "seeded", "configs", i, "transform"], cc)
        if plan["mode"] != MODES[mode_family(sd)][0]:
            yield dict(plan, mode=MODES[mode_family(sd)][0])
        if plan["return_ctx"]:
            yield dict(plan, return_ctx=False)
        yield from core.generic_candidates(plan, [["epochs"], ["epochs", "*", "batches"], ["epochs", "*", "batches", "*"],
                                                  ["stack", "seeded", "transforms"]],
                                           [(["K"], 0), (["stack", "root", "n"], 1), (["prefetch"], 1)])
        for i, e in enumerate(plan["epochs"]):
            if e["clobber_main"]:
                yield core._set(plan, ["epochs", i, "clobber_main"], None)
            if e["init_fn"]:
                yield core._set(plan, ["epochs", i, "init_fn"], False)

    # ---------------------------------------------------------------------------------------------------------
    def execute(self, plan):
        out = core.Outcome()
        vio = self._run(plan, plan["stack"], out)
        for cls, detail, culprit_hint in vio:
            out.violate(cls, self._culprit(plan, cls, culprit_hint), f"stack={S.sig(plan['stack'])} mode='{plan['mode']}': {detail}")
        return out

    def _culprit(self, plan, cls, hint):
        sd = plan["stack"]["seeded"]
        name = sd["w"]
        trees = []
        if "transform" in sd:
            trees = [sd["transform"]]
        elif "configs" in sd:
            trees = [c["transform"] for c in sd["configs"]]
        if not trees:
            return name
        # smallest subtree that shows the same class inside the same wrapper kind
        best = None
        for tree in trees:
            cur = tree
            if not self._fails_with(plan, cur, cls):
                continue
            while True:
                for sub in C.subtrees(cur):
                    if self._fails_with(plan, sub, cls):
                        cur = sub
                        break
                else:
                    break
            if best is None or C.size(cur) < C.size(best):
                best = cur
        return f"{name}:{C.root_name(best)}" if best is not None else name

    def _fails_with(self, plan, tree, cls):
        sd = dict(plan["stack"]["seeded"])
        if "transform" in sd:
            sd["transform"] = tree
        else:
            sd["configs"] = [{"n": 1, "transform": tree}]
        stack = dict(plan["stack"], seeded=sd)
        try:
            return any(v[0] == cls for v in self._run(dict(plan, stack=stack), stack, core.Outcome()))
        except Exception:
            return False

    def _run(self, plan, stack, out):
        from functools import partial
        import numpy as np
        import torch
        from kappadata.wrappers import ModeWrapper
        from simkit.chooser import Chooser
        from simkit.deep import deep_diff, h
        from simkit.simloader import SimDataLoader
        from simkit.simproc import SimProcess
        from .simdata import identity_collate, InjectedReadError
        vio = []
        main = SimProcess("main", plan["amb_main"])
        try:
            with main.on_cpu():
                ds = ModeWrapper(S.build(stack), mode=plan["mode"], return_ctx=plan["return_ctx"])
                n = len(ds)
        except Exception as e:
            out.rejected = True
            out.ev("rejected", type(e).__name__, str(e)[:60])
            out.count("rejected:" + type(e).__name__)
            return vio
        if n == 0:
            out.rejected = True
            return vio
        refs = {}
        ref_stack = dict(stack, root=dict(stack["root"], clobber={}, fail_at=[], lazy_fail_at=[]))

        def ref(i):
            i = int(i)
            if i not in refs:
                p = SimProcess("ref", plan["amb_ref"] + 17 * i + 1)
                with p.on_cpu():
                    refs[i] = ModeWrapper(S.build(ref_stack), mode=plan["mode"], return_ctx=plan["return_ctx"])[i]
            return refs[i]

        class Ld(SimDataLoader):
            chooser = Chooser(seed=plan["sched_seed"])
            trace = []
            start_method = plan.get("start_method", "fork")
            preempt = dict(seed=plan["sched_seed"], rate=plan["preempt_rate"]) if plan.get("preempt_rate") else None
            switches = 0

        def ref_flipped(i):
            """the same fresh single access, but with the opposite context propagation (values only)"""
            i = int(i)
            p = SimProcess("ref2", plan["amb_ref"] + 29 * i + 5)
            with p.on_cpu():
                v = ModeWrapper(S.build(ref_stack), mode=plan["mode"], return_ctx=not plan["return_ctx"])[i]
            return v[0] if not plan["return_ctx"] else v

        try:
            ref(0)
        except AssertionError:
            out.rejected = True
            out.count("rejected:assertion_on_fresh_access")
            return vio
        except Exception as e:
            vio.append((f"C08:raises:{type(e).__name__}", f"fresh single access of index 0: {type(e).__name__}: {e}", None))
            return vio
        K = plan["K"]
        seen = {}
        faults = 0
        for ei, ep in enumerate(plan["epochs"]):
            batches = [[i % n for i in b] for b in ep["batches"] if b]
            if ei % 2 == 1:
                batches = [[np.int64(i) for i in b] for b in batches]  # samplers hand over numpy integers as often as python ints
            if not batches:
                continue
            if ep["clobber_main"]:
                main.clobber(*ep["clobber_main"])
                out.count("fault:ambient_rng_clobber_main")
                faults += 1
            kw = dict(batch_sampler=batches, num_workers=K, collate_fn=identity_collate)
            if K > 0:
                kw["prefetch_factor"] = plan["prefetch"]
                if ep["init_fn"]:
                    kw["worker_init_fn"] = ds.worker_init_fn
                if ei > 0:
                    out.count("fault:worker_respawn")
                    faults += 1
            if ep["gen_seed"] is not None:
                kw["generator"] = torch.Generator().manual_seed(ep["gen_seed"])
            try:
                from .simdata import disarm_flaky_files
                try:
                    with main.on_cpu():
                        delivered = list(Ld(ds, **kw))
                finally:
                    if disarm_flaky_files():
                        out.count("lazy_image_never_decoded_by_the_stack")
            except Exception as e:
                if core.caused_by(e, InjectedReadError):
                    # the storage failed while a worker fetched a batch: the epoch is lost (that is allowed); later epochs in
                    # fresh workers must be right again
                    out.count("fault:transient_read_error_in_root")
                    out.ev("io-error", ei)
                    continue
                if isinstance(e, AssertionError):
                    # an assertion that a fresh single access of the same index trips as well is a refusal of the
                    # stack/mode combination, not a history effect
                    for i in sorted({i for b in batches for i in b}):
                        try:
                            ref(i)
                        except AssertionError:
                            out.rejected = True
                            out.count("rejected:assertion_on_fresh_access")
                            return []
                        except Exception:
                            break
                vio.append((f"C08:raises:{type(e).__name__}", f"epoch {ei}: {type(e).__name__}: {e}", None))
                out.ev("raised", ei, type(e).__name__)
                return vio
            for b, samples in zip(batches, delivered):
                for i, smp in zip(b, samples):
                    i = int(i)
                    seen[i] = seen.get(i, 0) + 1
                    out.count("logical:samples_delivered")
                    try:
                        r = ref(i)
                    except AssertionError as e:
                        out.rejected = True  # an assertion on a fresh single access: the stack/mode combination is refused
                        out.count("rejected:assertion_on_fresh_access")
                        return []
                    except Exception as e:
                        vio.append((f"C08:raises:{type(e).__name__}", f"reference access of index {i}: {type(e).__name__}: {e}", None))
                        return vio
                    d = deep_diff(smp, r)
                    out.ev("s", ei, i, h(smp))
                    if d and not any(v[0] == "C08:history-dependent" for v in vio):
                        vio.append(("C08:history-dependent", f"index {i} delivered in epoch {ei} (K={K}, delivery #{seen[i]} of this index) "
                                                             f"differs from a fresh single access: {d}", None))
        # whether a context is propagated is not part of (data, config, seed, i): the values must not depend on it
        if not vio:
            for i in sorted(seen)[:3]:
                try:
                    a = ref(i)
                    a = a[0] if plan["return_ctx"] else a
                    d = deep_diff(a, ref_flipped(i))
                except Exception as e:
                    break
                if d:
                    vio.append(("C08:depends-on-context-propagation", f"index {i}: value with return_ctx={plan['return_ctx']} differs from the value "
                                                                      f"with return_ctx={not plan['return_ctx']} (fresh single accesses): {d}", None))
                    break
        if stack["root"]["clobber"] and K >= 0:
            out.count("fault:ambient_rng_clobber_in_worker", len(stack["root"]["clobber"]))
            faults += 1
        out.ev("schedule", Ld.trace)
        if Ld.switches:
            out.count("fault:worker_preempted_inside_a_sample", Ld.switches)
        if plan["K"] >= 1 and Ld.start_method == "spawn":
            out.count("fault:workers_started_with_spawn")
        if plan["cls"] == "streams" and not vio:
            vals = {}
            for i in range(n):
                try:
                    if stack.get("above_seeded"):
                        smp = ref(i)
                        vals[i] = h(smp[plan["mode"].split(" ").index("x")])  # identical data below: x differs only through the noise stream
                    elif stack["seeded"]["w"] == "mix":
                        nz = sorted(float(v) for v in ref(i).flatten().tolist() if v != 0)
                        vals[i] = ("unmixed", i) if len(nz) < 2 else tuple(nz)  # mixing weights of a really mixed label
                    else:
                        vals[i] = h(ref(i))
                except Exception as e:
                    vio.append((f"C08:raises:{type(e).__name__}", f"reference access of index {i}: {e}", None))
                    return vio
            dup = [(i, j) for i in range(n) for j in range(i + 1, n) if vals[i] == vals[j]]
            out.tags.append("streams-probe")
            if dup:
                vio.append(("C08:indices-share-a-stream", f"indices {dup[:3]} produce identical random draws (identical data + Gaussian noise / identical mixing weights)", None))
        out.tags.append("w:" + stack["seeded"]["w"])
        out.tags.append(f"K={K}")
        out.nontrivial = K >= 1 and any(c >= 2 for c in seen.values()) and faults >= 1
        return vio


    def extra_evidence(self, tier, seed):
        from simkit.simloader import stub_validation
        sv = stub_validation(3 if tier == "quick" else 25, seed)
        return {"stub_validation": sv, "traces_validated_against_impl": sv["batches_compared"]}


SPEC = Spec()

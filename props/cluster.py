"""simcluster: W rank processes, each a SimProcess with its own ambient RNG state and its own sampler object.

Ranks agree only through (seed, epoch).  The seeded scheduler interleaves the ranks' steps at item granularity;
faults: F8 ambient-RNG clobber in one rank, F11 rank restart mid-epoch (sampler object discarded, rebuilt,
epoch re-announced, iteration started over), re-iteration of a finished epoch.
"""
from simkit import core


def gen_world(rng, kinds, big=False):
    kind = rng.choice(kinds)
    W = rng.choice([1, 2, 2, 3, 4, 5, 6] + ([7, 8, 12] if big else []))
    top = 72 if big else 24
    N = rng.choice([1, 2, 3, rng.randint(1, top), rng.randint(4, top), rng.randint(10, top)])
    w = dict(kind=kind, W=W, N=N, seed=rng.choice([0, 1, 5, rng.randint(0, 10 ** 6)]), implicit_rank=rng.random() < 0.3, pre_init_activity=rng.random() < 0.5,
             launcher_env=rng.choice([None, None, None, dict(rank_base=rng.choice([0, 1, 2]), world=rng.choice([2, 4, 8]))]))
    if kind == "dist":
        r = rng.choice([1, 1, 2, 3, 4])
        w.update(num_repeats=r, drop_last=rng.random() < 0.5, shuffle=True if r > 1 else rng.random() < 0.75)
    elif kind == "random":
        w.update(W=1, num_repeats=rng.choice([1, 2, 3]), replacement=rng.random() < 0.3, generator=rng.random() < 0.6)
    elif kind == "cb":
        nc = rng.randint(2, 5)
        classes = list(range(nc)) + [rng.randrange(nc) for _ in range(max(0, N - nc))]
        if rng.random() < 0.3:  # strongly imbalanced
            classes = list(range(nc)) + [0] * max(0, N - nc)
        rng.shuffle(classes)
        w.update(N=len(classes), classes=classes, nc=nc, spc=rng.choice([None, None, 1, 2, 3, 5, 7, 11]), shuffle=rng.random() < 0.7,
                 form=rng.choice(["list", "tensor", "numpy", "persample"]))
        if rng.random() < 0.25:
            old = list(w["classes"])
            rng.shuffle(old)
            w["relabel"] = dict(old=old, touch_root_first=rng.random() < 0.7)
    elif kind == "weighted":
        N = max(N, 1)
        w.update(weights=[round(rng.random() + 0.01, 4) for _ in range(N)], size=rng.choice([None, None, rng.randint(1, N)]))
    elif kind == "semi":
        N = max(N, 2)
        if rng.random() < 0.6:
            N = rng.randint(14, 28)  # pools large enough for the rank-difference clause (>= 40 bits)
        n_lab = rng.randint(1, N - 1)
        classes = [rng.randrange(3) for _ in range(n_lab)] + [-1] * (N - n_lab)
        rng.shuffle(classes)
        w.update(N=N, classes=classes, num_labeled=rng.choice([1, 1, 2, 3]), num_unlabeled=rng.choice([1, 1, 2, 3, 5]),
                 length_mode=rng.choice(["labeled", "unlabeled", "all"]), form=rng.choice(["list", "tensor", "numpy"]))
        if rng.random() < 0.25:
            old = list(classes)
            rng.shuffle(old)
            w["relabel"] = dict(old=old, touch_root_first=rng.random() < 0.7)
    rx = core.Streams(f"cluster-extra/{W}/{N}/{w['seed']}/{kind}")("x")  # independent of the draws above: older plans keep their worlds
    if kind == "cb" and w["form"] == "persample" and not w.get("relabel") and rx.random() < 0.4:
        w["label_read_fails_at"] = sorted({rx.randint(1, max(1, w["N"])) for _ in range(rx.randint(1, 2))})
    if w.get("relabel") and rx.random() < 0.5:
        # the same process built a sampler on the ROOT dataset earlier (a preview / evaluation sampler): whatever that left on
        # the root object must not reach the sampler built on the label-rewriting wrapper afterwards
        w["relabel"]["sampler_on_root_first"] = rx.choice(["all", "rank0"])  # every process did, or only rank 0 (preview code)
    if kind == "weighted" and rx.random() < 0.15:
        w["multinomial_fails"] = True  # stands for a draw over more than 2**24 categories, which torch.multinomial refuses
    return w


class LoudFailure(Exception):
    """an injected dependency failure reached the caller: the epoch (or the construction) is lost, nothing wrong was handed out"""


def make_dataset(w):
    from .simdata import LabelDataset, PerSampleLabelDataset
    if w.get("relabel") and w["kind"] in ("cb", "semi"):
        # the labels the sampler must honour are those of a label-rewriting wrapper; the wrapped root (other labels, no bulk
        # accessor) may already have been inspected by the library before
        from kappadata.wrappers.dataset_wrappers.overwrite_classes_wrapper import OverwriteClassesWrapper
        n_cls = w["nc"] if w["kind"] == "cb" else 3
        root = PerSampleLabelDataset(w["relabel"]["old"], n_cls)
        if w["relabel"]["touch_root_first"]:
            from kappadata.utils.getall_as_tensor import getall_as_tensor
            getall_as_tensor(root)
        return OverwriteClassesWrapper(root, classes=list(w["classes"]))
    if w["kind"] in ("dist", "random", "weighted"):
        return list(range(w["N"]))
    if w["kind"] == "cb":
        if w["form"] == "persample":
            return PerSampleLabelDataset(w["classes"], w["nc"], fail_at=w.get("label_read_fails_at") or ())
        return LabelDataset(w["classes"], w["nc"], w["form"])
    if w["kind"] == "semi":
        return LabelDataset(w["classes"], 3, w["form"])
    raise ValueError(w["kind"])


class FakeDist:
    """an initialised process group as seen from one simulated rank (seam: the `dist` module attribute of
    kappadata.utils.distributed and torch.utils.data.distributed)"""
    current = [None]  # (rank, world size) of the rank that is on CPU

    @staticmethod
    def is_available():
        return True

    @staticmethod
    def is_initialized():
        return FakeDist.current[0] is not None

    @staticmethod
    def get_rank(group=None):
        return FakeDist.current[0][0]

    @staticmethod
    def get_world_size(group=None):
        return FakeDist.current[0][1]


class as_rank:
    """context: the code inside runs as rank r of W with torch.distributed 'initialised' (or not, if implicit is False)"""

    launcher_env = [None]  # set per plan: environment a launcher (torchrun, SLURM) exported into every rank process

    def __init__(self, r, W, implicit, key=None):
        self.val = (r, W) if implicit else None
        self.key = key if key is not None else r
        le = as_rank.launcher_env[0]
        self.env = None
        if le is not None and key != "ref":
            self.env = {"RANK": str(le["rank_base"] + r), "WORLD_SIZE": str(le["world"]), "LOCAL_RANK": str(r)}

    last_rank = [None]

    def __enter__(self):
        import kappadata.utils.distributed as kud
        import torch.utils.data.distributed as tudd
        from simkit.simproc import clear_library_caches, salted_hash
        if as_rank.last_rank[0] != self.key:
            clear_library_caches()  # another process: its own (empty or separately filled) memo caches
            as_rank.last_rank[0] = self.key
        self.hash_ctx = salted_hash(f"rank-process/{self.key}")
        self.hash_ctx.__enter__()
        import os
        self.saved_env = {k: os.environ.get(k) for k in ("RANK", "WORLD_SIZE", "LOCAL_RANK")}
        if self.env is not None:
            os.environ.update(self.env)
        self.saved = (kud.dist, tudd.dist, FakeDist.current[0])
        if self.val is not None:
            kud.dist = FakeDist
            tudd.dist = FakeDist
        FakeDist.current[0] = self.val

    def __exit__(self, *a):
        import kappadata.utils.distributed as kud
        import torch.utils.data.distributed as tudd
        kud.dist, tudd.dist, FakeDist.current[0] = self.saved
        self.hash_ctx.__exit__()
        import os
        for k, v in self.saved_env.items():
            if v is None:
                os.environ.pop(k, None)
            else:
                os.environ[k] = v


def make_sampler(w, dataset, rank, W, implicit=False, is_ref=False):
    first = (w.get("relabel") or {}).get("sampler_on_root_first")
    if first and hasattr(dataset, "dataset") and (first in ("all", True) or (rank == 0 and not is_ref)):
        try:
            _make_sampler(w, dataset.dataset, dict(rank=0, world_size=1), dict(num_replicas=1, rank=0))
        except Exception:
            pass  # the root's own labels may not suit the sampler; only the attempt matters
    if implicit:
        # rank and world size come from the (simulated) process group, as in an ordinary DDP job
        rank_kw, dist_kw = {}, {}
    else:
        rank_kw, dist_kw = dict(rank=rank, world_size=W), dict(num_replicas=W, rank=rank)
    return _make_sampler(w, dataset, rank_kw, dist_kw)


def _make_sampler(w, dataset, rank_kw, dist_kw):
    import torch
    from kappadata.samplers import ClassBalancedSampler, DistributedSampler, RandomSampler, SemiSampler, WeightedSampler
    k = w["kind"]
    if k == "dist":
        return DistributedSampler(dataset, shuffle=w["shuffle"], seed=w["seed"], drop_last=w["drop_last"],
                                  num_repeats=w["num_repeats"], **dist_kw)
    if k == "random":
        g = torch.Generator().manual_seed(w["seed"]) if w["generator"] else None
        return RandomSampler(dataset, num_repeats=w["num_repeats"], replacement=w["replacement"], generator=g)
    if k == "cb":
        return ClassBalancedSampler(dataset, shuffle=w["shuffle"], samples_per_class=w["spc"], seed=w["seed"], **rank_kw)
    if k == "weighted":
        return WeightedSampler(dataset, torch.tensor(w["weights"]), size=w["size"], seed=w["seed"], **rank_kw)
    if k == "semi":
        return SemiSampler(dataset, num_labeled=w["num_labeled"], num_unlabeled=w["num_unlabeled"],
                           seed=w["seed"], length_mode=w["length_mode"], **rank_kw)
    raise ValueError(k)


def gen_plan(seed, kinds, big=False):
    st = core.Streams(seed)
    w = gen_world(st("world"), kinds, big)
    ro = st("ops")
    epochs = ro.choice([[0, 1, 2], [0, 1, 2, 3, 4], [ro.randint(0, 50) for _ in range(3)], [3, 0, 3], [0, 0, 1]])
    rf = st("faults")
    faults = []
    for _ in range(rf.choice([0, 1, 2, 3])):
        faults.append(dict(kind=rf.choice(["restart", "clobber", "clobber", "reiter", "peek", "prefetch_next", "ship", "draw_fails"]), rank=rf.randrange(w["W"]),
                           pos=rf.randrange(len(epochs)), at=rf.randint(0, 6), which=rf.choice(["py", "np", "torch", "advance"]),
                           seed=rf.randint(0, 999)))
    return dict(world=w, epochs=epochs, faults=faults, sched_seed=st("sched").getrandbits(32), amb_seed=st("amb").getrandbits(31))


class Rejected(Exception):
    pass


def run_cluster(plan, out):
    """returns dict(streams[pos][rank], lens[pos][rank], prefixes, reiters, ref[pos], raised)"""
    from simkit.chooser import Chooser
    from simkit.simproc import SimProcess, pickle_copy
    w = plan["world"]
    W = w["W"]
    ch = Chooser(seed=plan["sched_seed"])
    base_ds = make_dataset(w)
    procs = [SimProcess(f"rank{r}", plan["amb_seed"] + 7919 * (r + 1)) for r in range(W)]
    refp = SimProcess("ref", plan["amb_seed"] + 31)
    ds = [pickle_copy(base_ds) for _ in range(W)]
    samplers = [None] * W

    implicit = bool(w.get("implicit_rank"))
    if implicit:
        out.count("fault:rank_from_simulated_process_group")
    # launcher variables are only a fault when nothing initialised a process group: explicit arguments (or the documented
    # defaults rank 0 / world size 1) must win over whatever the environment says
    as_rank.launcher_env[0] = w.get("launcher_env") if not implicit else None
    if as_rank.launcher_env[0] is not None:
        out.count("fault:launcher_environment_variables_without_process_group")

    def construct(r):
        from .simdata import InjectedReadError
        for attempt in range(4):
            try:
                return construct_once(r)
            except Exception as e:
                if not core.caused_by(e, InjectedReadError):
                    raise
                # the storage failed once while the sampler read the labels: the rank sees the error and builds the sampler again
                out.count("fault:label_read_error_during_sampler_construction")
        raise RuntimeError("sampler construction keeps failing")

    def construct_once(r):
        if implicit and w.get("pre_init_activity"):
            # the process does something with the library BEFORE the process group exists (e.g. builds an evaluation sampler),
            # then initialises the group and builds the real sampler - all in one time slice of that process
            with procs[r].on_cpu(), as_rank(r, W, False):
                make_sampler(w, ds[r], 0, 1, False)
                out.count("fault:library_used_before_process_group_init")
                with as_rank(r, W, True):
                    samplers[r] = make_sampler(w, ds[r], r, W, True)
            return
        with procs[r].on_cpu(), as_rank(r, W, implicit):
            samplers[r] = make_sampler(w, ds[r], r, W, implicit)

    import torch
    real_multinomial = torch.multinomial
    if w.get("multinomial_fails"):
        def refusing_multinomial(*a, **k):
            out.count("fault:torch_multinomial_refuses")
            raise RuntimeError("number of categories cannot exceed 2^24 (injected)")
        torch.multinomial = refusing_multinomial
    try:
        return _run_cluster(plan, out, w, W, ch, base_ds, procs, refp, ds, samplers, implicit, construct)
    except Exception as e:
        cur, depth = e, 0
        while cur is not None and depth < 12:
            if w.get("multinomial_fails") and isinstance(cur, RuntimeError) and "2^24 (injected)" in str(cur):
                raise LoudFailure(str(e))
            cur, depth = cur.__cause__ or cur.__context__, depth + 1
        raise
    finally:
        torch.multinomial = real_multinomial


def _run_cluster(plan, out, w, W, ch, base_ds, procs, refp, ds, samplers, implicit, construct):
    from simkit.simproc import SimProcess, pickle_copy
    try:
        for r in range(W):
            construct(r)
        with refp.on_cpu(), as_rank(0, 1, False, key="ref"):
            from .simdata import InjectedReadError
            ref_ds = pickle_copy(base_ds)
            for attempt in range(4):
                try:
                    ref = make_sampler(w, ref_ds, 0, 1, is_ref=True)
                    break
                except Exception as e:
                    if not core.caused_by(e, InjectedReadError):
                        raise
    except AssertionError as e:
        raise Rejected(str(e))
    res = dict(streams=[], lens=[], prefix_ok=[], reiter_ok=[], ref=[], ref_len=[])
    for pos, e in enumerate(plan["epochs"]):
        order = list(range(W))
        ch.rng.shuffle(order)
        its = [None] * W
        for f in plan["faults"]:
            if f["kind"] == "ship" and f["pos"] == pos and f["rank"] < W:
                # the rank's sampler object crosses a process boundary (requeue, hand-over to a spawned trainer process, deepcopy):
                # pickled here, used there; the receiving process has the same process group iff ranks come from the group
                r = f["rank"]
                import copy
                import pickle
                try:
                    if f["at"] % 3 == 0:
                        with procs[r].on_cpu(), as_rank(r, W, implicit):
                            samplers[r] = copy.deepcopy(samplers[r])
                        out.count("fault:sampler_object_deepcopied")
                    else:
                        with procs[r].on_cpu(), as_rank(r, W, implicit):
                            blob = pickle.dumps(samplers[r])
                        procs[r] = SimProcess(f"rank{r}-respawn{pos}", plan["amb_seed"] + 104729 * (r + 1) + pos)
                        with procs[r].on_cpu(), as_rank(r, W, implicit, key=f"{r}-respawn{pos}"):
                            samplers[r] = pickle.loads(blob)
                        out.count("fault:sampler_object_shipped_to_another_process")
                except (TypeError, pickle.PicklingError, AttributeError) as e:
                    out.count("sampler_not_picklable")
        for r in order:
            with procs[r].on_cpu(), as_rank(r, W, implicit):
                if hasattr(samplers[r], "set_epoch"):
                    samplers[r].set_epoch(e)
                its[r] = iter(samplers[r])
        streams = [[] for _ in range(W)]
        done = [False] * W
        faults = [f for f in plan["faults"] if f["pos"] == pos and f["rank"] < W]
        for f in faults:
            if f["kind"] == "draw_fails" and not w.get("multinomial_fails"):
                # a dependency of the epoch draw (torch.randperm / multinomial / repeat_interleave) fails once in this rank - out of
                # memory, say; the rank sees the error and asks the same sampler object for the same epoch again
                import itertools
                import torch
                r = f["rank"]
                names = ["randperm", "multinomial", "repeat_interleave"]
                real = {n_: getattr(torch, n_) for n_ in names}
                state = {"armed": True}

                def failing(n_):
                    def fn(*a, **k):
                        if state["armed"]:
                            state["armed"] = False
                            raise MemoryError(f"injected: torch.{n_} could not allocate")
                        return real[n_](*a, **k)
                    return fn

                first = []
                try:
                    for n_ in names:
                        setattr(torch, n_, failing(n_))
                    with procs[r].on_cpu(), as_rank(r, W, implicit):
                        try:
                            it_ = iter(samplers[r])
                            first = [next(it_)]
                            its[r] = itertools.chain(first, it_)  # nothing failed (this sampler draws otherwise)
                        except StopIteration:
                            its[r] = iter(())
                        except MemoryError:
                            out.count("fault:epoch_draw_dependency_fails_once_then_retry")
                            its[r] = iter(samplers[r])  # the retry: same object, same epoch
                finally:
                    for n_ in names:
                        setattr(torch, n_, real[n_])
        for f in faults:
            if f["kind"] == "peek":
                # the rank looks at the first indices of the epoch (progress bar, sanity print ...) and then iterates for real:
                # an abandoned iteration of the same object must not change the epoch's draw
                r = f["rank"]
                with procs[r].on_cpu(), as_rank(r, W, implicit):
                    pk = iter(samplers[r])
                    for _ in range(1 + f["at"] % 3):
                        try:
                            next(pk)
                        except StopIteration:
                            break
                    its[r] = iter(samplers[r])
                out.count("fault:peek_then_iterate")
        fired = set()
        while not all(done):
            r = ch.choose([x for x in range(W) if not done[x]])
            for fi, f in enumerate(faults):
                if fi in fired or f["rank"] != r or f["kind"] in ("reiter", "peek", "draw_fails", "ship") or len(streams[r]) < f["at"]:
                    continue
                fired.add(fi)
                if f["kind"] == "prefetch_next":
                    # a prefetching consumer announces the NEXT epoch and starts its iterator while the current epoch's
                    # iterator is still alive; the rest of the current epoch must still come from the current epoch's draw
                    if w["kind"] != "random":
                        nxt = plan["epochs"][pos + 1] if pos + 1 < len(plan["epochs"]) else e + 1
                        with procs[r].on_cpu(), as_rank(r, W, implicit):
                            if hasattr(samplers[r], "set_epoch"):
                                samplers[r].set_epoch(nxt)
                            ahead = iter(samplers[r])
                            try:
                                next(ahead)
                            except StopIteration:
                                pass
                            if hasattr(samplers[r], "set_epoch"):
                                samplers[r].set_epoch(e)  # the epoch attribute is put back; live iterators keep what they drew
                        out.count("fault:next_epoch_started_while_current_iterator_alive")
                elif f["kind"] == "clobber":
                    procs[r].clobber(f["which"], f["seed"])
                    out.count("fault:ambient_rng_clobber")
                elif f["kind"] == "restart":
                    # the rank dies mid-epoch: object discarded, rebuilt from scratch, epoch re-announced
                    out.count("fault:rank_restart_mid_epoch" if streams[r] else "fault:rank_restart_at_epoch_start")
                    prefix = streams[r]
                    procs[r].clobber("advance", 0)
                    construct(r)
                    with procs[r].on_cpu(), as_rank(r, W, implicit):
                        if hasattr(samplers[r], "set_epoch"):
                            samplers[r].set_epoch(e)
                        its[r] = iter(samplers[r])
                    streams[r] = []
                    res["prefix_ok"].append((pos, r, prefix))
            with procs[r].on_cpu(), as_rank(r, W, implicit):
                try:
                    streams[r].append(int(next(its[r])))
                except StopIteration:
                    done[r] = True
            if len(streams[r]) > 100000:
                raise RuntimeError("sampler does not terminate")
        for fi, f in enumerate(faults):
            if f["kind"] == "reiter":
                r = f["rank"]
                out.count("fault:reiteration_of_finished_epoch")
                with procs[r].on_cpu(), as_rank(r, W, implicit):
                    again = [int(i) for i in samplers[r]]
                res["reiter_ok"].append((pos, r, again))
        with procs[0].on_cpu():
            pass
        lens = []
        for r in range(W):
            with procs[r].on_cpu(), as_rank(r, W, implicit):
                lens.append(len(samplers[r]))
        with refp.on_cpu(), as_rank(0, 1, False, key="ref"):
            if hasattr(ref, "set_epoch"):
                ref.set_epoch(e)
            g1 = [int(i) for i in ref]
            res["ref_len"].append(len(ref))
        res["streams"].append(streams)
        res["lens"].append(lens)
        res["ref"].append(g1)
        out.ev("epoch", pos, e, streams, g1)
    out.ev("sched", ch.trace)
    out.count("logical:rank_steps", len(ch.trace))
    out.count("logical:epochs", len(plan["epochs"]))
    return res


def interleave(streams):
    out = []
    for j in range(max(len(s) for s in streams) if streams else 0):
        for s in streams:
            if j < len(s):
                out.append(s[j])
    return out


def candidates(plan):
    w = plan["world"]
    if plan["faults"]:
        yield dict(plan, faults=[])
    if len(plan["epochs"]) > 1:
        yield dict(plan, epochs=plan["epochs"][:1])
        yield dict(plan, epochs=[0, 1])
    yield from core.generic_candidates(plan, [["faults"], ["epochs"]], [(["world", "W"], 1), (["world", "seed"], 0), (["epochs", "*"], 0),
                                                                       (["world", "num_repeats"], 1), (["world", "spc"], 1)])
    if w["kind"] in ("dist", "weighted", "random") and w["N"] > 1:
        for n in (w["N"] // 2, w["N"] - 1):
            if n >= 1:
                p = core._set(plan, ["world", "N"], n)
                if w["kind"] == "weighted":
                    p["world"]["weights"] = w["weights"][:n]
                    if p["world"]["size"] is not None:
                        p["world"]["size"] = min(p["world"]["size"], n)
                yield p
    if w["kind"] in ("cb", "semi") and len(w["classes"]) > 2:
        for i in range(len(w["classes"])):
            p = core._set(plan, ["world", "classes"], w["classes"][:i] + w["classes"][i + 1:])
            p["world"]["N"] = len(p["world"]["classes"])
            yield p

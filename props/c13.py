"""C13 - balanced, semi-supervised and weighted samplers compose epochs as promised (simcluster engine).

The clauses are about all ranks together and about per-rank streams; they are evaluated on the streams the
simulated ranks produced under interleaving, ambient-RNG clobbers and mid-epoch restarts.
"""
from collections import Counter

from simkit import core
from . import cluster as CL


class Spec(core.PropSpec):
    prop = "C13"
    level = "exploration"
    rule = ("plans = sampler kind (ClassBalancedSampler: class layouts incl. strongly imbalanced, samples_per_class none/1..11, "
            "shuffle on/off, labels as list/tensor/ndarray/per-sample; SemiSampler: labeled/unlabeled splits, chunk sizes, three "
            "length modes; WeightedSampler: weights, size) x world size 1..6 x seed x epoch list x faults (ambient RNG clobber, "
            "rank restart mid-epoch, re-iteration) x seeded item-level interleaving; non-trivial = at least one epoch in which "
            "every rank produced indices and, for W>=2, at least two ranks were interleaved; distinct = distinct SHA-256 of "
            "(per-rank streams, reference draw, schedule)")
    assumptions = ["single-rank arithmetic clauses are decided by the oracle, the multi-rank clauses by the simulated cluster; both counted",
                   "'differently seeded per rank' is only asserted where the stream carries >= 40 bits of entropy"]
    components = {"real": ["ClassBalancedSampler", "SemiSampler", "WeightedSampler", "kappadata.utils.getall_as_tensor"],
                  "stub": ["rank processes (SimProcess)", "label datasets (harness)"]}
    tiers = {"quick": dict(runs=12000, budget_s=40), "thorough": dict(runs=800000, budget_s=600)}

    def gen_plan(self, seed, tier):
        return CL.gen_plan(seed, ["cb", "cb", "semi", "semi", "weighted"], big=tier != "quick")

    def shrink_candidates(self, plan):
        return CL.candidates(plan)

    def execute(self, plan):
        import math
        out = core.Outcome()
        w = plan["world"]
        kind, W, N = w["kind"], w["W"], w["N"]
        site = kind + (f",form={w['form']}" if kind in ("cb", "semi") else "")
        try:
            res = CL.run_cluster(plan, out)
        except CL.Rejected:
            out.rejected = True
            return out
        except CL.LoudFailure:
            # the injected dependency failure reached the caller on every path: nothing was handed out
            out.count("injected_failure_reached_the_caller")
            out.tags.append("loud-failure")
            out.nontrivial = W >= 2
            return out
        except Exception as e:
            out.violate("C13:raises:" + type(e).__name__, site, f"{type(e).__name__}: {e}")
            return out
        for pos, e in enumerate(plan["epochs"]):
            streams, lens, g1 = res["streams"][pos], res["lens"][pos], res["ref"][pos]
            L = lens[0]
            if len(set(lens)) != 1 or any(len(s) != L for s in streams):
                out.violate("C13:uneven-rank-lengths", site, f"epoch {e}: len(sampler)={lens}, produced {[len(s) for s in streams]}")
                continue
            bad = [i for s in streams for i in s if not (0 <= i < N)]
            if bad:
                out.violate("C13:invalid-index", site, f"epoch {e}: {bad[:5]} not in range({N})")
                continue
            if kind == "cb":
                classes = w["classes"]
                nc = w["nc"]
                counts = Counter(classes)
                spc = w["spc"] or max(counts.values())
                eff = nc * spc
                if L != eff // W:
                    out.violate("C13:epoch-length", site, f"epoch {e}: len={L}, documented {eff}//{W}")
                # global draw (W=1): exactly spc of every class, samples reused as evenly as possible
                per_class = Counter(classes[i] for i in g1)
                if len(g1) != eff or any(per_class[c] != spc for c in range(nc)):
                    out.violate("C13:class-balance", site, f"epoch {e}: global draw has {dict(per_class)} per class, promised {spc} each")
                use = Counter(g1)
                for c in range(nc):
                    members = [i for i, y in enumerate(classes) if y == c]
                    lo, hi = spc // len(members), math.ceil(spc / len(members))
                    if any(not (lo <= use[i] <= hi) for i in members):
                        out.violate("C13:uneven-reuse-within-class", site,
                                    f"epoch {e}: class {c} members used {[use[i] for i in members]} times, allowed {lo}..{hi}")
                        break
                # over all ranks together: the global draw minus a tail of eff mod W entries
                gw = CL.interleave(streams)
                if gw != g1[:W * L] or len(g1) - W * L != eff % W:
                    out.violate("C13:ranks-union-is-not-the-global-draw", site, f"epoch {e}: {gw[:10]}... vs {g1[:10]}... W={W}")
            elif kind == "weighted":
                gw = CL.interleave(streams)
                eff = w["size"] if w["size"] is not None else N
                if L != eff // W:
                    out.violate("C13:epoch-length", site, f"epoch {e}: len={L}, documented {eff}//{W}")
                dup = [i for i, c in Counter(gw).items() if c > 1]
                if dup:
                    out.violate("C13:weighted-repeats-index", site, f"epoch {e}: indices {dup[:5]} drawn more than once across ranks")
            elif kind == "semi":
                lab = [i for i, y in enumerate(w["classes"]) if y != -1]
                unl = [i for i, y in enumerate(w["classes"]) if y == -1]
                nl, nu = w["num_labeled"], w["num_unlabeled"]
                chunks = {"labeled": len(lab) // nl, "unlabeled": len(unl) // nu, "all": (len(lab) + len(unl)) // (nl + nu)}[w["length_mode"]]
                eff = chunks * (nl + nu)
                if L != eff // W:
                    out.violate("C13:epoch-length", site, f"epoch {e}: len={L}, documented {eff}//{W} for mode {w['length_mode']}")
                labset, unlset = set(lab), set(unl)
                for r, s in enumerate(streams):
                    ls, us = [], []
                    for j, i in enumerate(s):
                        want_l = j % (nl + nu) < nl
                        if want_l != (i in labset):
                            out.violate("C13:semi-alternation", site, f"epoch {e} rank {r}: position {j} holds {'labeled' if i in labset else 'unlabeled'} index {i}")
                            break
                        (ls if want_l else us).append(i)
                    else:
                        for name, seq, pool in (("labeled", ls, lab), ("unlabeled", us, unl)):
                            for b in range(0, len(seq), len(pool)):
                                blk = seq[b:b + len(pool)]
                                if len(blk) == len(pool) and sorted(blk) != sorted(pool):
                                    out.violate("C13:semi-pool-repeats-before-exhausted", site, f"epoch {e} rank {r}: {name} block {blk} is not a permutation of the pool")
                                    break
                                if len(blk) < len(pool) and len(set(blk)) != len(blk):
                                    out.violate("C13:semi-pool-repeats-before-exhausted", site, f"epoch {e} rank {r}: partial {name} block {blk} repeats an element")
                                    break
                # differently seeded per rank: only where identical streams would be a < 2^-40 coincidence
                bits = math.lgamma(min(len(lab), L // 2 + 1) + 1) / math.log(2) + math.lgamma(min(len(unl), L // 2 + 1) + 1) / math.log(2)
                if W >= 2 and bits >= 40 and L >= 8:
                    out.tags.append("rank-seed-difference-asserted")
                    if all(s == streams[0] for s in streams[1:]):
                        out.violate("C13:semi-ranks-identical", site, f"epoch {e}: all {W} ranks produced the identical stream")
        for pos, r, again in res["reiter_ok"]:
            if again != res["streams"][pos][r]:
                out.violate("C13:reiteration-differs", site, f"rank {r} epoch {plan['epochs'][pos]}")
        for pos, r, prefix in res["prefix_ok"]:
            if prefix != res["streams"][pos][r][:len(prefix)]:
                out.violate("C13:restart-differs", site, f"rank {r} epoch {plan['epochs'][pos]}")
        out.tags.append("kind:" + kind)
        if kind == "cb" and w["spc"] and w["spc"] > max(Counter(w["classes"]).values()):
            out.tags.append("oversampling-needs-wraparound")
        out.nontrivial = any(all(len(s) > 0 for s in st) for st in res["streams"])
        return out


SPEC = Spec()

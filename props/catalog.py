"""catalogue of the stochastic transforms / compositions / ready-made pipelines KappaData ships, with an input
adapter each.  A transform tree is described by a JSON spec so that plans stay serialisable and shrinkable:
   {"t": "leaf", "name": <catalogue name>}
   {"t": "compose", "items": [spec, ...]}          KDComposeTransform
   {"t": "list", "items": [spec, ...]}             plain list (object_to_transform turns it into a compose)
   {"t": "apply", "p": 0.5, "item": spec}          KDRandomApply
   {"t": "patchwise", "item": spec}                PatchwiseTransform(patch_size=4)
   {"t": "scheduled", "item": spec}                KDScheduledTransform
"""
import numpy as np
import torch
from PIL import Image


# ----------------------------------------------------------------------------------------------
# inputs (k makes them distinct; all deterministic)
# ----------------------------------------------------------------------------------------------
def T(k=1, c=3, h=16, w=16):
    return ((torch.arange(c * h * w).float().view(c, h, w) * (k + 1)) % 23) / 23


def P(k=1, h=32, w=32, mode="RGB"):
    a = ((np.arange(h * w * 3).reshape(h, w, 3) * (k + 1)) % 251).astype(np.uint8)
    im = Image.fromarray(a)
    return im if mode == "RGB" else im.convert("L")


def S(k=1):
    return T(k, 1, 12, 20)  # spectrogram (c, time, freq)


def PT(k=1):
    return T(k, 3, 16, 16).view(3, 4, 4, 4, 4).permute(0, 1, 3, 2, 4).reshape(3, 16, 4, 4).contiguous()  # (c, l, ph, pw)


def SEG(k=1):
    return (T(k, 3, 16, 16), ((torch.arange(256).view(16, 16) + k) % 5))


INPUTS = {"T": T, "P": P, "S": S, "PT": PT, "SEG": SEG}


VARIANTS = {
    "T": [dict(), dict(c=3, h=24, w=16), dict(c=1, h=16, w=16), dict(c=3, h=32, w=32), dict(c=3, h=8, w=20), dict(c=3, h=160, w=144)],
    "P": [dict(), dict(h=24, w=40), dict(mode="L"), dict(h=48, w=64), dict(h=9, w=33)],
    "S": [dict(), dict()],
    "PT": [dict()],
    "SEG": [dict()],
}


def make_input(dom, k, variant=0):
    """variant 0 is the standard input of the domain; others vary size / channels / PIL mode"""
    v = VARIANTS[dom][variant % len(VARIANTS[dom])]
    if dom == "S" and variant % 2 == 1:
        return T(k, 1, 20, 12)
    if dom == "SEG" and variant % 2 == 1:
        return (T(k, 3, 24, 16), ((torch.arange(24 * 16).view(24, 16) + k) % 5))
    return INPUTS[dom](k, **v) if v else INPUTS[dom](k)


def make_corrupt(dom, kind=0):
    """an input a loader that skips unreadable samples would feed once: a truncated image file (header intact, so mode and size
    are known; the pixel data is cut off, PIL raises at the first pixel access), an empty tensor, ..."""
    import io
    import numpy as np
    if dom == "P":
        mode = ["L", "RGB"][kind % 2]
        shape = (64, 64) if mode == "L" else (64, 64, 3)
        data = (np.random.default_rng(kind).random(shape) * 255).astype("uint8")  # noise: the pixel data dominates the file
        buf = io.BytesIO()
        Image.fromarray(data, mode=mode).save(buf, format="JPEG")
        raw = buf.getvalue()
        return Image.open(io.BytesIO(raw[:len(raw) // 2]))
    if dom == "T":
        return [torch.zeros(3, 0, 5), torch.zeros(5), torch.full((3, 16, 16), float("nan"))][kind % 3]
    if dom == "S":
        return torch.zeros(1, 0, 12)
    return None


def clone(x):
    if torch.is_tensor(x):
        return x.clone()
    if isinstance(x, Image.Image):
        return x.copy()
    if isinstance(x, (tuple, list)):
        return type(x)(clone(y) for y in x)
    return x


# ----------------------------------------------------------------------------------------------
# leaves
# ----------------------------------------------------------------------------------------------
def _leaves():
    import kappadata.transforms as kdt
    import kappadata.common.transforms as kct
    from kappadata.transforms.kd_random_rotation import KDRandomRotation
    from kappadata.transforms.kd_two_random_crop import KDTwoRandomCrop
    from kappadata.transforms.semseg.kd_semseg_overlapped_multi_crop import KDSemsegOverlappedMultiCrop
    from kappadata.transforms.semseg.kd_semseg_random_resize_old import KDSemsegRandomResizeOld
    from kappadata.common.transforms.mugs_transforms import MUGSStrongGlobalTransform, MUGSStrongLocalTransform
    L = {}

    def add(name, make, dom, keep=False, patch_ok=False, pipeline=False):
        L[name] = dict(make=make, dom=dom, keep=keep, patch_ok=patch_ok, pipeline=pipeline)

    add("KDAdditiveGaussianNoise", lambda: kdt.KDAdditiveGaussianNoise(std=0.5), "T", True, True)
    add("KDAdditiveGaussianNoise(normalmag)", lambda: kdt.KDAdditiveGaussianNoise(std=0.5, magnitude=0.5, magnitude_std=0.2), "T", True, True)
    add("KDAdditiveUniformNoise", lambda: kdt.KDAdditiveUniformNoise(), "T", True, True)
    add("KDRandomAdditiveGaussianNoise", lambda: kdt.KDRandomAdditiveGaussianNoise(std=0.5, p=0.7), "T", True, True)
    add("KDThreshold", lambda: kdt.KDThreshold(threshold=0.5, threshold_std=0.2), "T", True, True)
    add("KDRandomThreshold", lambda: kdt.KDRandomThreshold(threshold=0.5, threshold_std=0.2, p=0.7), "T", True, True)
    add("KDColorJitter", lambda: kdt.KDColorJitter(brightness=0.4, contrast=0.4, saturation=0.2, hue=0.1), "P", True)
    add("KDColorJitter(tensor)", lambda: kdt.KDColorJitter(brightness=0.4, contrast=0.4, saturation=0.2, hue=0.1), "T", True)
    add("KDColorJitter(wide)", lambda: kdt.KDColorJitter(brightness=1.0, contrast=(0., 1.5), saturation=1.5, hue=0.5), "P", True)
    add("KDColorJitter(tensor,wide)", lambda: kdt.KDColorJitter(brightness=(0., 2.), contrast=1.0, saturation=(0.5, 1.), hue=(-0.5, 0.1)), "T", True)
    add("KDRandomColorJitter", lambda: kdt.KDRandomColorJitter(p=0.8, brightness=0.4, contrast=0.4, saturation=0.2, hue=0.1), "P", True)
    add("KDGaussianBlurPIL", lambda: kdt.KDGaussianBlurPIL(sigma=(0.1, 2.0)), "P", True)
    add("KDGaussianBlurTV", lambda: kdt.KDGaussianBlurTV(kernel_size=3, sigma=(0.1, 2.0)), "T", True)
    add("KDRandomGaussianBlurPIL", lambda: kdt.KDRandomGaussianBlurPIL(p=0.5, sigma=(0.1, 2.0)), "P", True)
    add("KDRandomGaussianBlurTV", lambda: kdt.KDRandomGaussianBlurTV(p=0.5, kernel_size=3, sigma=(0.1, 2.0)), "T", True)
    add("KDRandomGrayscale", lambda: kdt.KDRandomGrayscale(p=0.5), "P", True)
    add("KDRandomHorizontalFlip", lambda: kdt.KDRandomHorizontalFlip(), "T", True, True)
    add("KDRandomHorizontalFlip(PIL)", lambda: kdt.KDRandomHorizontalFlip(), "P", True)
    add("KDRandomSolarize", lambda: kdt.KDRandomSolarize(p=0.5, threshold=128), "P", True)
    add("KDSolarize(int)", lambda: kdt.KDSolarize(threshold=100), "P", True)
    add("KDSolarize(float)", lambda: kdt.KDSolarize(threshold=0.4), "T", True)
    # keep=False: torchvision returns an expanded (memory-sharing) tensor; transforms writing in place must not follow it
    add("KDRandomGrayscale(tensor)", lambda: kdt.KDRandomGrayscale(p=0.5), "T", False)
    add("KDRandomSolarize(tensor)", lambda: kdt.KDRandomSolarize(p=0.5, threshold=0.5), "T", True)
    add("KDGaussianBlurPIL(tensor input)", lambda: kdt.KDGaussianBlurPIL(sigma=(0.1, 2.0)), "T")
    add("KDRandomErasing(PIL->tensor)", lambda: kdt.KDComposeTransform([kdt.KDRandomResizedCrop(size=16), __import__("torchvision").transforms.ToTensor(),
                                                                       kdt.KDRandomErasing(p=0.9, mode="pixelwise")]), "P")
    add("KDRandomCrop", lambda: kdt.KDRandomCrop(size=8, padding=2), "T")
    add("KDRandomCrop(PIL)", lambda: kdt.KDRandomCrop(size=8), "P")
    add("KDTwoRandomCrop", lambda: KDTwoRandomCrop(size=8, overlap_min=0.1, overlap_max=0.9), "T")
    add("KDRandomResizedCrop", lambda: kdt.KDRandomResizedCrop(size=8), "T")
    add("KDRandomResizedCrop(PIL)", lambda: kdt.KDRandomResizedCrop(size=8), "P")
    add("KDSimpleRandomCrop", lambda: kdt.KDSimpleRandomCrop(size=16), "T", True)
    add("KDRandomErasing(zeros)", lambda: kdt.KDRandomErasing(p=0.8), "T", True)
    add("KDRandomErasing(pixelwise)", lambda: kdt.KDRandomErasing(p=0.8, mode="pixelwise", max_count=3), "T", True)
    add("KDRandomErasing(channelwise)", lambda: kdt.KDRandomErasing(p=0.9, mode="channelwise", max_count=2), "T", True)
    add("KDRandomResizedCrop(bicubic,ratio)", lambda: kdt.KDRandomResizedCrop(size=(8, 12), scale=(0.3, 1.0), ratio=(0.5, 2.0), interpolation="bicubic"), "P")
    add("KDSpecAugment(time only)", lambda: kdt.KDSpecAugment(time_masking=5), "S", True)
    add("KDAdditiveGaussianNoise(clipped)", lambda: kdt.KDAdditiveGaussianNoise(std=0.5, clip_min=0.0, clip_max=1.0), "T", True, True)
    add("KDTwoRandomCrop(tight overlap)", lambda: KDTwoRandomCrop(size=8, overlap_min=0.4, overlap_max=0.6, tries=3), "T")
    add("KDRandomRotation", lambda: KDRandomRotation(degrees=30), "T", True)
    add("KDRandAugment", lambda: kdt.KDRandAugment(num_ops=2, magnitude=9, magnitude_std=0.5, interpolation="random",
                                                   fill_color=(124, 116, 104)), "P", True)
    add("KDRandAugmentCustom", lambda: kdt.KDRandAugmentCustom(num_ops=2, magnitude=9, magnitude_std=0.5, interpolation="bicubic",
                                                               fill_color=(124, 116, 104)), "P", True)
    add("KDThreeAugment", lambda: kdt.KDThreeAugment(threshold=128, sigma=(0.1, 2.0)), "P", True)
    add("KDMagnitudeJitter", lambda: kdt.KDMagnitudeJitter(alpha=10), "S", True)
    add("KDRoll", lambda: kdt.KDRoll(), "S", True)
    add("KDSpecAugment", lambda: kdt.KDSpecAugment(time_masking=4, frequency_masking=6), "S", True)
    add("PatchwiseRandomRotation", lambda: kdt.PatchwiseRandomRotation(), "PT", True)
    add("PatchwiseShuffle", lambda: kdt.PatchwiseShuffle(), "PT", True)
    add("KDSemsegRandomCrop", lambda: kdt.KDSemsegRandomCrop(size=8), "SEG")
    add("KDSemsegRandomHorizontalFlip", lambda: kdt.KDSemsegRandomHorizontalFlip(), "SEG", True)
    add("KDSemsegRandomResize", lambda: kdt.KDSemsegRandomResize(base_size=(16, 16), ratio=(0.5, 2.0)), "SEG")
    add("KDSemsegRandomResizeOld", lambda: KDSemsegRandomResizeOld(base_size=(16, 16), ratio=(0.5, 2.0)), "SEG")
    add("KDSemsegOverlappedMultiCrop", lambda: KDSemsegOverlappedMultiCrop(crop_size=8), "SEG")
    # ready-made pipelines
    add("BYOLTransform", lambda: kct.BYOLTransform(size=16), "P", pipeline=True)
    add("BYOLTransform0", lambda: kct.BYOLTransform0(size=16), "P", pipeline=True)
    add("BYOLTransform1", lambda: kct.BYOLTransform1(size=16), "P", pipeline=True)
    add("ImagenetMinaugTransform", lambda: kct.ImagenetMinaugTransform(size=16), "P", pipeline=True)
    add("MAEFinetuneTransform", lambda: kct.MAEFinetuneTransform(), "P", pipeline=True)
    add("MUGSStrongGlobal", lambda: MUGSStrongGlobalTransform(size=16), "P", pipeline=True)
    add("MUGSStrongLocal", lambda: MUGSStrongLocalTransform(size=8), "P", pipeline=True)
    return L


# ----------------------------------------------------------------------------------------------
# parametrised leaves: constructor arguments drawn from option tables.  The leaf NAME carries everything needed to
# rebuild it ("P|<class>|<domain>|<keep>|<json kwargs>"), so plans stay plain JSON and replay in a fresh interpreter.
# ----------------------------------------------------------------------------------------------
_CJ = [0, 0.4, 1.0, [0.0, 1.5], [0.5, 1.0]]
PARAM_TABLES = {
    # class: (domains, keep, patch_ok, scalable, {kwarg: choices})
    "KDColorJitter": (["P", "T"], True, False, True, dict(brightness=_CJ, contrast=_CJ, saturation=_CJ, hue=[0, 0.1, 0.5, [-0.5, 0.1], [0.0, 0.3]])),
    "KDRandomColorJitter": (["P", "T"], True, False, True, dict(p=[0.5, 0.8, 1.0], brightness=_CJ, contrast=_CJ, saturation=_CJ, hue=[0, 0.1, 0.5, [-0.2, 0.2]])),
    "KDRandomErasing": (["T"], True, False, False, dict(p=[0.5, 1.0], mode=["zeros", "pixelwise", "channelwise"], max_count=[None, 1, 3],
                                                        min_area=[0.02, 0.1], max_area=[0.2, 1 / 3])),
    "KDGaussianBlurTV": (["T"], True, False, True, dict(kernel_size=[3, 5], sigma=[[0.1, 2.0], [0.1, 0.1], [0.1, 5.0]])),
    "KDGaussianBlurPIL": (["P"], True, False, True, dict(sigma=[[0.1, 2.0], [0.1, 0.1], [0.1, 5.0]])),
    "KDRandomGaussianBlurPIL": (["P"], True, False, True, dict(p=[0.3, 1.0], sigma=[[0.1, 2.0], [0.1, 4.0]])),
    "KDAdditiveGaussianNoise": (["T"], True, True, True, dict(std=[0.1, 1.0], magnitude=[0.5, 1.0], magnitude_std=[0.0, 0.2, "inf"],
                                                              magnitude_min=[0.0, 0.2], clip_min=[None, 0.0], clip_max=[None, 1.0])),
    "KDAdditiveUniformNoise": (["T"], True, True, True, dict(magnitude=[0.3, 1.0], magnitude_std=[0.0, 0.1, "inf"], magnitude_min=[0.0, 0.1])),
    "KDThreshold": (["T"], True, True, True, dict(threshold=[0.2, 0.5], threshold_std=[0.0, 0.2])),
    "KDRandAugment": (["P"], True, False, True, dict(num_ops=[1, 2, 3], magnitude=[0, 5, 9, 10], magnitude_std=[0.0, 0.5, "inf"],
                                                     interpolation=["random", "bicubic", "bilinear"], apply_op_p=[0.5, 1.0], fill_color=[[124, 116, 104]])),
    "KDRandomResizedCrop": (["T", "P"], False, False, False, dict(size=[8, [8, 12]], scale=[[0.08, 1.0], [0.5, 1.0]],
                                                                  ratio=[[0.75, 1.3333333333333333], [0.5, 2.0]], interpolation=["bilinear", "bicubic"])),
    "KDRandomCrop": (["T", "P"], False, False, False, dict(size=[8], padding=[None, 2, 4], pad_if_needed=[False, True], padding_mode=["constant", "reflect"])),
    "KDRandomSolarize": (["P"], True, False, True, dict(p=[0.5, 1.0], threshold=[0, 100, 128, 255])),
    "KDRandomGrayscale": (["P"], True, False, True, dict(p=[0.2, 0.5, 1.0])),
    "KDSpecAugment": (["S"], True, False, False, dict(time_masking=[2, 5], frequency_masking=[None, 3, 6])),
    "KDMagnitudeJitter": (["S"], True, False, False, dict(alpha=[1, 10])),
    "KDRandomHorizontalFlip": (["T", "P"], True, True, False, dict(p=[0.0, 0.5, 1.0])),
}


def _kw_from_json(kw):
    out = {}
    for k, v in kw.items():
        if isinstance(v, list):
            v = tuple(v)
        if v == "inf":
            v = float("inf")
        out[k] = v
    return out


def gen_param_leaf(rng, dom=None, keep=False, patch=False, scalable_only=False):
    """a leaf spec with constructor arguments drawn from PARAM_TABLES, or None if no class fits"""
    import json
    cands = sorted(c for c, (doms, kp, pok, sc, _) in PARAM_TABLES.items()
                   if (dom is None or dom in doms) and (kp or not keep) and (pok or not patch) and (sc or not scalable_only))
    if not cands:
        return None
    cls = rng.choice(cands)
    doms, kp, pok, sc, table = PARAM_TABLES[cls]
    d = dom if dom is not None else rng.choice(doms)
    kw = {k: rng.choice(v) for k, v in sorted(table.items())}
    if cls == "KDRandomErasing" and kw["min_area"] > kw["max_area"]:
        kw["min_area"] = 0.02
    return {"t": "leaf", "name": f"P|{cls}|{d}|{int(kp)}|{int(pok)}|" + json.dumps(kw, sort_keys=True)}


class _Leaves(dict):
    def __missing__(self, name):
        import json
        import kappadata.transforms as kdt
        if not name.startswith("P|"):
            raise KeyError(name)
        _, cls, d, kp, pok, kwj = name.split("|", 5)
        kw = _kw_from_json(json.loads(kwj))
        ctor = getattr(kdt, cls)
        entry = dict(make=lambda: ctor(**kw), dom=d, keep=bool(int(kp)), patch_ok=bool(int(pok)), pipeline=False, cls=cls)
        self[name] = entry
        return entry


def display(name):
    """short human-readable leaf name (parametrised leaves carry their kwargs in the name)"""
    if name.startswith("P|"):
        parts = name.split("|", 5)
        return f"{parts[1]}{parts[5]}"
    return name


def base_class(name):
    return name.split("|")[1] if name.startswith("P|") else name.split("(")[0]


_L = None


def leaves():
    global _L
    if _L is None:
        _L = _Leaves(_leaves())
    return _L


# ----------------------------------------------------------------------------------------------
# specs
# ----------------------------------------------------------------------------------------------
def build(spec):
    import kappadata.transforms as kdt
    t = spec["t"]
    if t == "leaf":
        return leaves()[spec["name"]]["make"]()
    if t == "compose":
        return kdt.KDComposeTransform([build(s) for s in spec["items"]])
    if t == "list":
        return [build(s) for s in spec["items"]]
    if t == "apply":
        return kdt.KDRandomApply(p=spec["p"], transform=build(spec["item"]))
    if t == "patchwise":
        return kdt.PatchwiseTransform(patch_size=4, transform=build(spec["item"]))
    if t == "scheduled":
        return kdt.KDScheduledTransform(build(spec["item"]))
    raise ValueError(t)


def dom_of(spec):
    t = spec["t"]
    if t == "leaf":
        return leaves()[spec["name"]]["dom"]
    if t in ("compose", "list"):
        return dom_of(spec["items"][0])
    if t == "patchwise":
        return "T"
    return dom_of(spec["item"])


def sig(spec):
    t = spec["t"]
    if t == "leaf":
        return display(spec["name"])
    if t == "save":
        return "SaveStateToContext"
    if t in ("compose", "list"):
        return f"{t}[{','.join(sig(s) for s in spec['items'])}]"
    return f"{t}({sig(spec['item'])})"


ROOT_CLASS = {"compose": "KDComposeTransform", "list": "list->KDComposeTransform", "apply": "KDRandomApply",
              "patchwise": "PatchwiseTransform", "scheduled": "KDScheduledTransform"}


def root_name(spec):
    return base_class(spec["name"]) if spec["t"] == "leaf" and spec["name"].startswith("P|") else \
        (spec["name"] if spec["t"] == "leaf" else ROOT_CLASS[spec["t"]])


def subtrees(spec):
    """direct children"""
    t = spec["t"]
    if t in ("leaf", "save"):
        return []
    if t in ("compose", "list"):
        return list(spec["items"])
    return [spec["item"]]


def size(spec):
    return 1 + sum(size(s) for s in subtrees(spec))


def gen_spec(rng, depth=3, dom=None, keep_only=False, patch=False, allow_list=False, scheduled=True):
    """random transform tree of nesting depth <= depth over one input domain"""
    L = leaves()
    if dom is None:
        dom = rng.choice(["T", "T", "T", "P", "P", "S", "PT", "SEG"])

    def leaf(keep):
        names = sorted(n for n, e in L.items() if not n.startswith("P|") and e["dom"] == dom and not e["pipeline"] and (e["keep"] or not keep)
                       and (e["patch_ok"] or not patch))
        pick = {"t": "leaf", "name": rng.choice(names)}
        if rng.random() < 0.35:
            pl = gen_param_leaf(rng, dom, keep, patch)
            if pl is not None:
                return pl
        return pick

    if depth <= 0 or rng.random() < 0.3 or dom == "SEG":  # KDComposeTransform treats a tuple as several samples
        return leaf(keep_only)
    kinds = ["compose", "compose", "apply"] + (["scheduled"] if scheduled else [])
    if dom == "T" and not patch:
        kinds.append("patchwise")
    if allow_list:
        kinds.append("list")
    k = rng.choice(kinds)
    if k in ("compose", "list"):
        n = rng.randint(1, 3)
        items = [gen_spec(rng, depth - 1, dom, keep_only=(i < n - 1) or keep_only, patch=patch, scheduled=scheduled) for i in range(n)]
        return {"t": k, "items": items}
    if k == "apply":
        return {"t": "apply", "p": rng.choice([0.5, 0.5, 0.8, 1.0]), "item": gen_spec(rng, depth - 1, dom, True, patch, scheduled=scheduled)}
    if k == "scheduled":
        return {"t": "scheduled", "item": gen_spec(rng, depth - 1, dom, keep_only, patch)}
    return {"t": "patchwise", "item": gen_spec(rng, depth - 1, "T", True, True, scheduled=scheduled)}


def gen_entry(rng):
    """either a catalogue leaf (every one reachable), a pipeline, or a random composition"""
    L = leaves()
    r = rng.random()
    if r < 0.4:
        pick = {"t": "leaf", "name": rng.choice(sorted(n for n, e in L.items() if not n.startswith("P|") and not e["pipeline"]))}
        if rng.random() < 0.4:
            return gen_param_leaf(rng) or pick
        return pick
    if r < 0.5:
        return {"t": "leaf", "name": rng.choice(sorted(n for n, e in L.items() if not n.startswith("P|") and e["pipeline"]))}
    return gen_spec(rng, depth=3)


def spec_candidates(spec):
    """simpler specs (for shrinking): any subtree, dropping compose items"""
    for s in subtrees(spec):
        yield s
    if spec["t"] in ("compose", "list") and len(spec["items"]) > 1:
        for i in range(len(spec["items"])):
            yield {"t": spec["t"], "items": spec["items"][:i] + spec["items"][i + 1:]}
    if spec["t"] in ("compose", "list"):
        for i, it in enumerate(spec["items"]):
            for c in spec_candidates(it):
                yield {"t": spec["t"], "items": spec["items"][:i] + [c] + spec["items"][i + 1:]}
    elif spec["t"] != "leaf":
        for c in spec_candidates(spec["item"]):
            yield dict(spec, item=c)
